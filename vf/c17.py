# c17.py - C17 static contract: Python generates (element type, N) rows and the expected values from the statement's formulas;
# generated C++ TUs let the compiler evaluate sizeof / traits / noexcept for the same rows; the two tables are compared.
import os
import random
import time
from pathlib import Path

from . import driver as D

SIZES_ALIGNS = [(s, a) for s in (1, 2, 3, 4, 5, 7, 8, 12, 16, 24) for a in (1, 2, 4, 8, 16) if s % a == 0]
KINDS = ['trivial', 'tr_declared', 'non_tr', 'throwing_move', 'opted_out', 'throwing_assign', 'tr_throwing_assign', 'throwing_swap', 'user_copy_trivial_move']
PAIRS = [('trivial', 'trivial'), ('trivial', 'non_tr'), ('tr_declared', 'trivial'), ('opted_out', 'trivial'), ('tr_declared', 'tr_declared')]
N_FIXED = list(range(0, 11)) + [15, 16, 17, 31, 32, 33, 40, 255, 256, 65535, 65536]
PTR = 8

PRELUDE = r'''
#include <cstdint>
#include <cstdio>
#include <functional>
#include <set>
#include <type_traits>
#include <utility>
#include <amc/fixedcapacityvector.hpp>
#include <amc/flatset.hpp>
#include <amc/smallvector.hpp>
#include <amc/vector.hpp>
#include <amc/type_traits.hpp>
#if __cplusplus >= 201703L
#include <amc/smallset.hpp>
#endif
template <int S, int A> struct Bytes { alignas(A) unsigned char b[S]; };
template <int S, int A> struct Trivial { Bytes<S, A> d; };
template <int S, int A> struct TrDeclared { using trivially_relocatable = std::true_type; Bytes<S, A> d;
  TrDeclared() {} TrDeclared(const TrDeclared &o) : d(o.d) {} TrDeclared(TrDeclared &&o) noexcept : d(o.d) {}
  TrDeclared &operator=(const TrDeclared &o) { d = o.d; return *this; } TrDeclared &operator=(TrDeclared &&o) noexcept { d = o.d; return *this; } ~TrDeclared() {} };
template <int S, int A> struct NonTr { Bytes<S, A> d;
  NonTr() {} NonTr(const NonTr &o) : d(o.d) {} NonTr(NonTr &&o) noexcept : d(o.d) {}
  NonTr &operator=(const NonTr &o) { d = o.d; return *this; } NonTr &operator=(NonTr &&o) noexcept { d = o.d; return *this; } ~NonTr() {} };
template <int S, int A> struct ThrowingMove { Bytes<S, A> d;
  ThrowingMove() {} ThrowingMove(const ThrowingMove &o) : d(o.d) {} ThrowingMove(ThrowingMove &&o) noexcept(false) : d(o.d) {}
  ThrowingMove &operator=(const ThrowingMove &o) { d = o.d; return *this; } ThrowingMove &operator=(ThrowingMove &&o) noexcept(false) { d = o.d; return *this; } ~ThrowingMove() {} };
template <int S, int A> struct ThrowingAssign { Bytes<S, A> d;
  ThrowingAssign() {} ThrowingAssign(const ThrowingAssign &o) : d(o.d) {} ThrowingAssign(ThrowingAssign &&o) noexcept : d(o.d) {}
  ThrowingAssign &operator=(const ThrowingAssign &o) { d = o.d; return *this; } ThrowingAssign &operator=(ThrowingAssign &&o) noexcept(false) { d = o.d; return *this; } ~ThrowingAssign() {} };
template <int S, int A> struct TrThrowingAssign { using trivially_relocatable = std::true_type; Bytes<S, A> d;
  TrThrowingAssign() {} TrThrowingAssign(const TrThrowingAssign &o) : d(o.d) {} TrThrowingAssign(TrThrowingAssign &&o) noexcept : d(o.d) {}
  TrThrowingAssign &operator=(const TrThrowingAssign &o) { d = o.d; return *this; } TrThrowingAssign &operator=(TrThrowingAssign &&o) noexcept(false) { d = o.d; return *this; } ~TrThrowingAssign() {} };
template <int S, int A> struct ThrowingSwap { Bytes<S, A> d;
  ThrowingSwap() {} ThrowingSwap(const ThrowingSwap &o) : d(o.d) {} ThrowingSwap(ThrowingSwap &&o) noexcept : d(o.d) {}
  ThrowingSwap &operator=(const ThrowingSwap &o) { d = o.d; return *this; } ThrowingSwap &operator=(ThrowingSwap &&o) noexcept { d = o.d; return *this; } ~ThrowingSwap() {}
  friend void swap(ThrowingSwap &a, ThrowingSwap &b) noexcept(false) { Bytes<S, A> t = a.d; a.d = b.d; b.d = t; } };
template <int S, int A> struct UserCopyTrivialMove { Bytes<S, A> d;
  UserCopyTrivialMove() = default; UserCopyTrivialMove(const UserCopyTrivialMove &o) : d(o.d) {} UserCopyTrivialMove(UserCopyTrivialMove &&) = default;
  UserCopyTrivialMove &operator=(const UserCopyTrivialMove &o) { d = o.d; return *this; } UserCopyTrivialMove &operator=(UserCopyTrivialMove &&) = default; ~UserCopyTrivialMove() = default; };
template <int S, int A> struct OptedOut { using trivially_relocatable = std::false_type; Bytes<S, A> d; };
template <class V> struct SwapNoexcept { static const bool value = noexcept(std::declval<V &>().swap(std::declval<V &>())); };
namespace adl_probe { using std::swap; template <class V> struct FreeSwapNoexcept { static const bool value = noexcept(swap(std::declval<V &>(), std::declval<V &>())); }; }
template <class T> struct TrOf { static const bool value = amc::is_trivially_relocatable<T>::value; };
#define P(x) static_cast<unsigned long long>(x)
template <class T, unsigned long long N>
static void row_dyn(const char *id) {  // amc::vector (N==0) or SmallVector
  typedef amc::vector<T> Vec;
  typedef amc::SmallVector<T, N> SV;
  typedef amc::FlatSet<T, std::less<T>, amc::allocator<T>, SV> FS;
  std::printf("DYN %s sizeofT=%llu alignT=%llu trT=%d sizeofVec=%llu sizeofSV=%llu alignSV=%llu nmc=%d nma=%d nsw=%d nswf=%d trTypedef=%d trFlatSet=%d tdT=%d\n", id,
              P(sizeof(T)), P(alignof(T)), int(TrOf<T>::value), P(sizeof(Vec)), P(sizeof(SV)), P(alignof(SV)),
              int(std::is_nothrow_move_constructible<SV>::value), int(std::is_nothrow_move_assignable<SV>::value), int(SwapNoexcept<SV>::value), int(adl_probe::FreeSwapNoexcept<SV>::value),
              int(std::is_same<typename SV::trivially_relocatable, std::true_type>::value), int(TrOf<FS>::value), int(std::is_trivially_destructible<T>::value));
}
template <class T, unsigned long long N>
static void row_fcv(const char *id) {
  typedef amc::FixedCapacityVector<T, N> F;
  std::printf("FCV %s sizeofF=%llu tdF=%d stBytes=%llu stUnsigned=%d nmc=%d nma=%d nsw=%d nswf=%d trTypedef=%d sizeofT=%llu\n", id, P(sizeof(F)), int(std::is_trivially_destructible<F>::value),
              P(sizeof(typename F::size_type)), int(std::is_unsigned<typename F::size_type>::value), int(std::is_nothrow_move_constructible<F>::value),
              int(std::is_nothrow_move_assignable<F>::value), int(SwapNoexcept<F>::value), int(adl_probe::FreeSwapNoexcept<F>::value), int(std::is_same<typename F::trivially_relocatable, std::true_type>::value), P(sizeof(T)));
}
#if __cplusplus >= 201703L
template <class T, unsigned long long N>
static void row_set(const char *id) {
  typedef amc::SmallSet<T, N> S1;
  typedef amc::SmallSet<T, N, std::less<T>, amc::allocator<T>, amc::FlatSet<T> > S2;
  std::printf("SET %s trStdSet=%d trFlat=%d\n", id, int(TrOf<S1>::value), int(TrOf<S2>::value));
}
#endif
'''

CXX_KIND = {'trivial': 'Trivial', 'tr_declared': 'TrDeclared', 'non_tr': 'NonTr', 'throwing_move': 'ThrowingMove', 'opted_out': 'OptedOut', 'throwing_assign': 'ThrowingAssign',
            'tr_throwing_assign': 'TrThrowingAssign', 'throwing_swap': 'ThrowingSwap', 'user_copy_trivial_move': 'UserCopyTrivialMove'}


def tname(t):
    if t[0] == 'pair':
        return 'std::pair<%s, %s >' % (tname(t[1]), tname(t[2]))
    return '%s<%d,%d>' % (CXX_KIND[t[0]], t[1], t[2])


def tid(t):
    if t[0] == 'pair':
        return 'pair(%s,%s)' % (tid(t[1]), tid(t[2]))
    return '%s/%d/%d' % t


# ---- the oracle: computed from (size, align, kind, N) only --------------------------------------
def t_size(t):
    if t[0] == 'pair':
        a = max(t_align(t[1]), t_align(t[2]))
        off = -(-t_size(t[1]) // t_align(t[2])) * t_align(t[2])
        return -(-(off + t_size(t[2])) // a) * a
    return t[1]


def t_align(t):
    if t[0] == 'pair':
        return max(t_align(t[1]), t_align(t[2]))
    return t[2]


def t_tr(t):
    if t[0] == 'pair':
        return t_tr(t[1]) and t_tr(t[2])
    return t[0] in ('trivial', 'tr_declared', 'tr_throwing_assign')


def t_trivially_destructible(t):
    if t[0] == 'pair':
        return t_trivially_destructible(t[1]) and t_trivially_destructible(t[2])
    return t[0] in ('trivial', 'opted_out', 'user_copy_trivial_move')


def t_nothrow_move(t):  # move construction and move assignment
    if t[0] == 'pair':
        return t_nothrow_move(t[1]) and t_nothrow_move(t[2])
    return t[0] not in ('throwing_move', 'throwing_assign', 'tr_throwing_assign')


def t_nothrow_move_ctor(t):
    if t[0] == 'pair':
        return t_nothrow_move_ctor(t[1]) and t_nothrow_move_ctor(t[2])
    return t[0] != 'throwing_move'


def t_nothrow_swap(t):  # swap(T&, T&) found by ADL, or std::swap (nothrow when both moves are)
    if t[0] == 'pair':
        return t_nothrow_swap(t[1]) and t_nothrow_swap(t[2])
    return t[0] != 'throwing_swap' and t_nothrow_move(t)


def align_up(x, a):
    return -(-x // a) * a


def expect_dyn(t, n, vec_size):
    s, a = t_size(t), t_align(t)
    e = {'sizeofT': s, 'alignT': a, 'trT': int(t_tr(t)), 'tdT': int(t_trivially_destructible(t))}
    if n * s <= PTR:
        e['sizeofSV_max'] = vec_size
    else:
        e['sizeofSV_max'] = align_up(vec_size + n * s, max(a, PTR))
    e['nmc_required'] = int(n == 0 or t_tr(t) or t_nothrow_move_ctor(t))
    e['nma_required'] = int(n == 0 or t_tr(t) or t_nothrow_move(t))
    e['nsw_required'] = int(n == 0 or (t_nothrow_move_ctor(t) and t_nothrow_swap(t)))
    # the object holds what amc::vector<T> holds besides its pointer, and either a pointer or the N element slots, whichever is larger
    e['sizeofSV_min'] = vec_size - PTR + max(PTR, n * s)  # the bookkeeping words of amc::vector<T> plus the larger of pointer and slots
    # the other direction, only where the operation would run a throwing element operation inside a noexcept function
    e['nmc_forbidden'] = int(n > 0 and not t_tr(t) and not t_nothrow_move_ctor(t))
    e['nma_forbidden'] = int(n > 0 and not t_tr(t) and not t_nothrow_move(t))
    e['nsw_forbidden'] = int(n > 0 and (not t_nothrow_move_ctor(t) or t[0] == 'throwing_swap'))
    e['trTypedef'] = int(True if n == 0 else t_tr(t))
    e['trFlatSet'] = e['trTypedef']
    return e


def expect_fcv(t, n):
    st = 1 if n <= 255 else 2 if n <= 65535 else 4 if n <= 4294967295 else 8
    return {'tdF': int(t_trivially_destructible(t)), 'stBytes': st, 'stUnsigned': 1, 'nmc_required': int(t_tr(t) or t_nothrow_move_ctor(t)),
            'nma_required': int(t_tr(t) or t_nothrow_move(t)), 'nsw_required': int(t_nothrow_move_ctor(t) and t_nothrow_swap(t)), 'trTypedef': int(t_tr(t)), 'sizeofT': t_size(t),
            'nmc_forbidden': int(n > 0 and not t_tr(t) and not t_nothrow_move_ctor(t)), 'nma_forbidden': int(n > 0 and not t_tr(t) and not t_nothrow_move(t)),
            'nsw_forbidden': int(n > 0 and (not t_nothrow_move_ctor(t) or t[0] == 'throwing_swap'))}


def all_types():
    ts = [(k, s, a) for (s, a) in SIZES_ALIGNS for k in KINDS]
    for (k1, k2) in PAIRS:
        for (s1, a1), (s2, a2) in (((4, 4), (8, 8)), ((3, 1), (4, 2)), ((16, 16), (1, 1)), ((8, 4), (8, 4))):
            ts.append(('pair', (k1, s1, a1), (k2, s2, a2)))
    return ts


def make_rows(tier, seed):
    rng = random.Random(int(seed))
    rows = []
    types = all_types()
    for t in types:
        ns = list(N_FIXED) if tier == 'thorough' or t[0] == 'pair' or (t[1], t[2]) in ((3, 1), (8, 8), (16, 16), (12, 4), (1, 1), (24, 8), (5, 1), (4, 2)) else [0, 1, 2, 3, 8, 9, 255, 256, 65536]
        extra = [rng.randrange(11, 41) for _ in range(2 if tier == 'quick' else 8)] + [rng.choice([254, 257, 1000, 65534, 65537, 70000])]
        for n in sorted(set(ns + extra)):
            rows.append((t, n))
    return rows


def nontrivial(t, n):
    if t[0] == 'pair':
        return True
    s, a = t[1], t[2]
    return (s & (s - 1)) != 0 or a != s or n in (255, 256, 65535, 65536, 254, 257, 65534, 65537) or abs(n * s - PTR) <= s


def gen_tu(rows, path):
    out = [PRELUDE, 'int main() {']
    for (t, n) in rows:
        rid = '%s|N=%d' % (tid(t), n)
        out.append('  row_dyn<%s, %dull>("%s");' % (tname(t), n, rid))
        if n >= 0:
            out.append('  row_fcv<%s, %dull>("%s");' % (tname(t), n, rid))
        if 1 <= n <= 64:
            out.append('#if __cplusplus >= 201703L\n  row_set<%s, %dull>("%s");\n#endif' % (tname(t), n, rid))
    out.append('  return 0;\n}')
    Path(path).write_text('\n'.join(out))


def compile_run(std, rows, work, idx):
    src = work / ('c17_%s_%d.cpp' % (std, idx))
    exe = work / ('c17_%s_%d' % (std, idx))
    gen_tu(rows, src)
    cxx, level = ('clang++', std[5:]) if std.startswith('clang') else ('g++', std)
    cmd = [cxx, '-std=c++' + level, '-O0', '-w', '-DAMC_NONSTD_FEATURES', '-I' + str(D.REPO / 'include'), str(src), '-o', str(exe)]
    rc, out, err, _ = D.run_proc(cmd, timeout=1800)
    if rc != 0:
        return None, 'compile failed (c++%s): %s' % (std, err[-1500:])
    rc, out, err, _ = D.run_proc([str(exe)], timeout=300)
    if rc != 0:
        return None, 'table printer failed'
    return out, None


def parse(out):
    res = {}
    for l in out.splitlines():
        p = l.split()
        if len(p) < 3:
            continue
        res[(p[0], p[1])] = {k: int(v) for k, v in (x.split('=') for x in p[2:])}
    return res


def compare(std, rows, table):
    """returns list of (row_id, message)"""
    bad = []
    for (t, n) in rows:
        rid = '%s|N=%d' % (tid(t), n)
        d = table.get(('DYN', rid))
        if d is None:
            bad.append((rid, 'row missing from the compiler table'))
            continue
        e = expect_dyn(t, n, d['sizeofVec'])
        for k in ('sizeofT', 'alignT', 'trT', 'tdT', 'trTypedef', 'trFlatSet'):
            if d[k] != e[k]:
                bad.append((rid, 'c++%s: %s is %d, the statement implies %d' % (std, k, d[k], e[k])))
        if d['sizeofSV'] > e['sizeofSV_max']:
            bad.append((rid, 'c++%s: sizeof(SmallVector<T,%d>)=%d exceeds the bound %d (sizeof(vector<T>)=%d, sizeof(T)=%d)' % (std, n, d['sizeofSV'], e['sizeofSV_max'], d['sizeofVec'], d['sizeofT'])))
        if d['sizeofSV'] < e['sizeofSV_min']:
            bad.append((rid, 'c++%s: sizeof(SmallVector<T,%d>)=%d cannot hold two size words and %d elements of %d bytes inline' % (std, n, d['sizeofSV'], n, d['sizeofT'])))
        for k, what in (('nmc', 'move construction'), ('nma', 'move assignment'), ('nsw', 'swap')):
            if e[k + '_required'] and not d[k]:
                bad.append((rid, 'c++%s: %s of SmallVector<T,%d> must be noexcept under the documented condition but is not' % (std, what, n)))
            if e[k + '_forbidden'] and d[k]:
                bad.append((rid, 'c++%s: %s of SmallVector<T,%d> is declared noexcept although it runs a throwing element operation' % (std, what, n)))
        if d['nswf'] != d['nsw']:
            bad.append((rid, 'c++%s: swap(a, b) found by ADL on SmallVector<T,%d> is noexcept(%d) but a.swap(b) is noexcept(%d): the free function calls the member' % (std, n, d['nswf'], d['nsw'])))
        if n >= 0:
            f = table.get(('FCV', rid))
            if f is None:
                bad.append((rid, 'FCV row missing'))
                continue
            ef = expect_fcv(t, n)
            for k in ('tdF', 'stBytes', 'stUnsigned', 'trTypedef'):
                if f[k] != ef[k]:
                    bad.append((rid, 'c++%s: FixedCapacityVector<T,%d> %s is %d, the statement implies %d' % (std, n, k, f[k], ef[k])))
            if f['nswf'] != f['nsw']:
                bad.append((rid, 'c++%s: swap(a, b) found by ADL on FixedCapacityVector<T,%d> is noexcept(%d) but a.swap(b) is noexcept(%d)' % (std, n, f['nswf'], f['nsw'])))
            for k, what in (('nmc', 'move construction'), ('nma', 'move assignment'), ('nsw', 'swap')):
                if ef[k + '_required'] and not f[k]:
                    bad.append((rid, 'c++%s: %s of FixedCapacityVector<T,%d> must be noexcept under the documented condition but is not' % (std, what, n)))
                if ef[k + '_forbidden'] and f[k]:
                    bad.append((rid, 'c++%s: %s of FixedCapacityVector<T,%d> is declared noexcept although it runs a throwing element operation' % (std, what, n)))
        if 1 <= n <= 64 and std in ('17', '20', 'clang17', 'clang20'):
            s = table.get(('SET', rid))
            if s is None:
                bad.append((rid, 'SET row missing'))
                continue
            if s['trStdSet'] != 0:
                bad.append((rid, 'c++%s: SmallSet over std::set claims trivially_relocatable' % std))
            if s['trFlat'] != int(t_tr(t)):
                bad.append((rid, 'c++%s: FlatSet-backed SmallSet<T,%d> trivially_relocatable is %d, conjunction of its parts is %d' % (std, n, s['trFlat'], int(t_tr(t)))))
    return bad


def parse_rid(rid):
    tpart, npart = rid.rsplit('|N=', 1)

    def pt(s):
        if s.startswith('pair('):
            inner = s[5:-1]
            a, b = inner.split(',')
            return ('pair', pt(a), pt(b))
        k, sz, al = s.split('/')
        return (k, int(sz), int(al))
    return pt(tpart), int(npart)


def run(tier, seed, only_rows=None, stds=None):
    t0 = time.time()
    if stds is None:  # clang++ 14 is the second compiler: the static contract may not depend on g++'s reading of a trait
        stds = ('11', '14', '17', '20', 'clang17') if tier == 'quick' else ('11', '14', '17', '20', 'clang11', 'clang14', 'clang17', 'clang20')
    rows = only_rows if only_rows is not None else make_rows(tier, seed)
    work = D.BUILD / 'run' / ('C17_%d' % os.getpid())
    work.mkdir(parents=True, exist_ok=True)
    chunk = 260
    jobs = []
    for std in stds:
        for i in range(0, len(rows), chunk):
            jobs.append((std, rows[i:i + chunk], i // chunk))
    results = D.pool_map(lambda j: (j, compile_run(j[0], j[1], work, j[2])), jobs)
    bad, errors = [], []
    evaluated = 0
    for (std, rws, idx), (out, err) in results:
        if err:
            errors.append(err)
            continue
        table = parse(out)
        evaluated += len(rws)
        bad += compare(std, rws, table)
    import shutil
    shutil.rmtree(work, ignore_errors=True)
    return {'rows': rows, 'bad': bad, 'errors': errors, 'evaluated': evaluated, 'wall': time.time() - t0, 'stds': list(stds)}
