# c16.py - C16: the same generated tapes replayed by interpreters built in many configurations; transcripts must be byte-identical.
import hashlib
import os
import shutil
import time
from pathlib import Path

from . import configs as C
from . import driver as D

QUICK_BUILDS = [('11', 1, 1, 'O0'), ('11', 0, 0, 'O2'), ('14', 1, 0, 'O2'), ('14', 0, 1, 'O0'),
                ('17', 1, 1, 'O2'), ('17', 0, 0, 'O0'), ('20', 1, 0, 'O0'), ('20', 0, 1, 'O2')]
ALL_BUILDS = [(s, e, n, o) for s in ('11', '14', '17', '20') for e in (1, 0) for n in (1, 0) for o in ('O0', 'O2')]

VEC = ['sv_3_ntr_u32_std', 'sv_4_tr_u32_re', 'vec_0_tr_i8_std', 'fcv_6_ntr', 'sv_2_tc3_u32_amc', 'sv_3_i32_i32_amc', 'vec_0_i32_u8_re', 'fcv_16_i32', 'sv_2_tc7_u32_std',
       'sv_3_tc3_u16_re']
FS = ['fs_less_sv4_ntr_std', 'fs_stateful_amcvec_ntr_amc', 'fs_coarse_amcvec_tr_re']
SS = ['ss_3_less_stdset_ntr_std', 'ss_2_stateful_flatvec_ntr_std']


def bname(b):
    return 'cxx%s_%s_%s_%s' % (b[0], 'extras' if b[1] else 'pedantic', 'ndebug' if b[2] else 'assert', b[3])


def unit(cfg, b):
    std, extras, ndebug, opt = b
    d = {}
    if extras:
        d['AMC_NONSTD_FEATURES'] = None
    if ndebug:
        d['NDEBUG'] = None
    if cfg in C.VEC_TYPES:
        d['VF_V'] = C.VEC_TYPES[cfg]
        src = 'targets/vec_main.cpp'
    elif cfg in C.FS_DEFS:
        d.update(C.FS_DEFS[cfg])
        src = 'targets/flatset_main.cpp'
    else:
        d.update(C.SS_DEFS[cfg])
        src = 'targets/smallset_main.cpp'
    name = 'x16_%s_%s' % (cfg, bname(b))
    d['VF_NAME'] = '"%s"' % cfg
    return D.Unit(name, src, d, std=std, kind='plain', engine=True, opt='-' + opt)


def gen_unit(cfg):
    """the sanitizer C++17 build used by the other checks generates the corpus"""
    from . import props as P
    if cfg in C.VEC_TYPES:
        return P.vec_unit(cfg)
    if cfg in C.FS_DEFS:
        return P.fs_unit(cfg)
    return P.ss_unit(cfg)


def absent_probe(b, work):
    """which extras does a build offer? (SFINAE detection; protected members are substitution failures)"""
    std, extras, ndebug, opt = b
    src = work / ('absent_%s.cpp' % bname(b))
    src.write_text(r'''
#include <cstdio>
#include <type_traits>
#include <utility>
#include <amc/vector.hpp>
#include <amc/smallvector.hpp>
#include <amc/fixedcapacityvector.hpp>
#include <amc/flatset.hpp>
template <class...> struct voider { typedef void type; };
#define DETECT(NAME, EXPR) \
  template <class T, class = void> struct NAME : std::false_type {}; \
  template <class T> struct NAME<T, typename voider<decltype(EXPR)>::type> : std::true_type {};
DETECT(has_append, std::declval<T &>().append(typename T::size_type(1)))
DETECT(has_pop_back_val, std::declval<T &>().pop_back_val())
DETECT(has_swap2, std::declval<T &>().swap2(std::declval<T &>()))
DETECT(has_steal_vector, std::declval<T &>().steal_vector())
DETECT(has_data, std::declval<const T &>().data())
DETECT(has_capacity, std::declval<const T &>().capacity())
DETECT(has_reserve, std::declval<T &>().reserve(typename T::size_type(1)))
DETECT(has_index, std::declval<const T &>()[typename T::size_type(0)])
DETECT(has_push_back, std::declval<T &>().push_back(std::declval<const typename T::value_type &>()))
// the standard interface must be there in every configuration
#define CIT(T) std::declval<typename T::const_iterator>()
#define VAL(T) std::declval<const typename T::value_type &>()
DETECT(has_insert_ilist, std::declval<T &>().insert(CIT(T), std::initializer_list<typename T::value_type>()))
DETECT(has_insert_range, std::declval<T &>().insert(CIT(T), std::declval<const typename T::value_type *>(), std::declval<const typename T::value_type *>()))
DETECT(has_insert_count, std::declval<T &>().insert(CIT(T), typename T::size_type(1), VAL(T)))
DETECT(has_insert_one, std::declval<T &>().insert(CIT(T), VAL(T)))
DETECT(has_emplace, std::declval<T &>().emplace(CIT(T), VAL(T)))
DETECT(has_emplace_back, std::declval<T &>().emplace_back(VAL(T)))
DETECT(has_erase1, std::declval<T &>().erase(CIT(T)))
DETECT(has_erase2, std::declval<T &>().erase(CIT(T), CIT(T)))
DETECT(has_assign_n, std::declval<T &>().assign(typename T::size_type(1), VAL(T)))
DETECT(has_assign_ilist, std::declval<T &>().assign(std::initializer_list<typename T::value_type>()))
DETECT(has_assign_range, std::declval<T &>().assign(std::declval<const typename T::value_type *>(), std::declval<const typename T::value_type *>()))
DETECT(has_resize, std::declval<T &>().resize(typename T::size_type(1)))
DETECT(has_resize_v, std::declval<T &>().resize(typename T::size_type(1), VAL(T)))
DETECT(has_pop_back, std::declval<T &>().pop_back())
DETECT(has_clear, std::declval<T &>().clear())
DETECT(has_shrink, std::declval<T &>().shrink_to_fit())
DETECT(has_at, std::declval<const T &>().at(typename T::size_type(0)))
DETECT(has_front_back, (std::declval<const T &>().front(), std::declval<const T &>().back()))
DETECT(has_swap, std::declval<T &>().swap(std::declval<T &>()))
DETECT(has_rbegin, (std::declval<const T &>().rbegin(), std::declval<const T &>().crend()))
DETECT(has_max_size, std::declval<const T &>().max_size())
DETECT(has_set_insert, std::declval<T &>().insert(VAL(T)))
DETECT(has_set_insert_hint, std::declval<T &>().insert(CIT(T), VAL(T)))
DETECT(has_set_insert_range, std::declval<T &>().insert(std::declval<const typename T::value_type *>(), std::declval<const typename T::value_type *>()))
DETECT(has_set_insert_ilist, std::declval<T &>().insert(std::initializer_list<typename T::value_type>()))
DETECT(has_set_erase_key, std::declval<T &>().erase(VAL(T)))
DETECT(has_set_find, (std::declval<const T &>().find(VAL(T)), std::declval<const T &>().count(VAL(T)), std::declval<const T &>().lower_bound(VAL(T)), std::declval<const T &>().upper_bound(VAL(T)), std::declval<const T &>().equal_range(VAL(T))))
DETECT(has_set_emplace, (std::declval<T &>().emplace(VAL(T)), std::declval<T &>().emplace_hint(CIT(T), VAL(T))))
template <class C> static void std_api_vec(const char *n) {
  std::printf("\nstdapi %s %d%d%d%d%d%d%d%d%d%d%d%d%d%d%d%d%d%d%d%d%d%d%d", n, int(has_insert_ilist<C>::value), int(has_insert_range<C>::value), int(has_insert_count<C>::value), int(has_insert_one<C>::value),
              int(has_emplace<C>::value), int(has_emplace_back<C>::value), int(has_erase1<C>::value), int(has_erase2<C>::value), int(has_assign_n<C>::value), int(has_assign_ilist<C>::value),
              int(has_assign_range<C>::value), int(has_resize<C>::value), int(has_resize_v<C>::value), int(has_pop_back<C>::value), int(has_clear<C>::value), int(has_shrink<C>::value), int(has_at<C>::value),
              int(has_front_back<C>::value), int(has_swap<C>::value), int(has_rbegin<C>::value), int(has_max_size<C>::value), int(has_push_back<C>::value), int(has_data<C>::value));
}
template <class C> static void std_api_set(const char *n) {
  std::printf("\nstdapi %s %d%d%d%d%d%d%d%d%d%d%d%d", n, int(has_set_insert<C>::value), int(has_set_insert_hint<C>::value), int(has_set_insert_range<C>::value), int(has_set_insert_ilist<C>::value),
              int(has_set_erase_key<C>::value), int(has_erase1<C>::value), int(has_erase2<C>::value), int(has_set_find<C>::value), int(has_set_emplace<C>::value), int(has_clear<C>::value),
              int(has_swap<C>::value), int(has_rbegin<C>::value));
}
// compile-time facts a program can print: they must not depend on the build configuration either
template <int S> struct B3 { unsigned char b[S]; };
struct NT { int v; NT() : v(0) {} NT(const NT &o) : v(o.v) {} NT(NT &&o) noexcept : v(o.v) {} NT &operator=(const NT &o) { v = o.v; return *this; } NT &operator=(NT &&o) noexcept { v = o.v; return *this; } ~NT() {} };
struct TS { int v; TS() : v(0) {} TS(const TS &o) : v(o.v) {} TS(TS &&o) noexcept : v(o.v) {} TS &operator=(const TS &o) { v = o.v; return *this; } TS &operator=(TS &&o) noexcept { v = o.v; return *this; } ~TS() {}
  friend void swap(TS &a, TS &b) noexcept(false) { int t = a.v; a.v = b.v; b.v = t; } };
struct TA { typedef std::true_type trivially_relocatable; int v; TA() : v(0) {} TA(const TA &o) : v(o.v) {} TA(TA &&o) noexcept : v(o.v) {} TA &operator=(const TA &o) { v = o.v; return *this; } TA &operator=(TA &&o) noexcept(false) { v = o.v; return *this; } ~TA() {} };
struct TM { int v; TM() : v(0) {} TM(const TM &o) : v(o.v) {} TM(TM &&o) noexcept(false) : v(o.v) {} TM &operator=(const TM &o) { v = o.v; return *this; } TM &operator=(TM &&o) noexcept(false) { v = o.v; return *this; } ~TM() {} };
template <class C> static void facts(const char *n) {
  std::printf(" %s:%u/%u/%d%d%d%d%d", n, unsigned(sizeof(C)), unsigned(alignof(C)), int(std::is_nothrow_move_constructible<C>::value), int(std::is_nothrow_move_assignable<C>::value),
              int(noexcept(std::declval<C &>().swap(std::declval<C &>()))), int(amc::is_trivially_relocatable<C>::value), int(std::is_trivially_destructible<C>::value));
}
template <class T> static void facts_for(const char *n) {
  std::printf("\nstatic %s tr=%d", n, int(amc::is_trivially_relocatable<T>::value));
  facts<amc::vector<T> >("vec"); facts<amc::SmallVector<T, 1> >("sv1"); facts<amc::SmallVector<T, 2> >("sv2"); facts<amc::SmallVector<T, 3> >("sv3"); facts<amc::SmallVector<T, 5> >("sv5");
  facts<amc::SmallVector<T, 9> >("sv9"); facts<amc::FixedCapacityVector<T, 0> >("fcv0"); facts<amc::FixedCapacityVector<T, 1> >("fcv1"); facts<amc::FixedCapacityVector<T, 3> >("fcv3");
  facts<amc::FixedCapacityVector<T, 300> >("fcv300"); facts<amc::FlatSet<T, std::less<T>, amc::allocator<T>, amc::SmallVector<T, 3> > >("fs3");
}
// ---- run-time facts printed by the same probe: element ranges of ANOTHER type converted into the containers (range constructor, assign, insert).
// Each line shows the bytes the amc container holds and the bytes std::copy produces for the same source; both must agree, in every build.
#include <algorithm>
#include <cstring>
#include <list>
template <class D> static void dump(const D *p, std::size_t n) {
  const unsigned char *b = reinterpret_cast<const unsigned char *>(p);
  for (std::size_t i = 0; i < n * sizeof(D); ++i) std::printf("%02x", unsigned(b[i]));
}
template <class V, class D, class It> static void conv_one(const char *name, const char *vn, const char *itn, It first, It last, std::size_t n) {
  D ref[16], ref3[16];
  std::copy(first, last, ref);
  D filler = D();
  {
    V v(first, last);
    std::printf("\nconvert %s %s %s ctor ", name, vn, itn); dump(v.data(), v.size()); std::printf("|"); dump(ref, n);
  }
  {
    V v; v.push_back(filler); v.push_back(filler);
    v.assign(first, last);
    std::printf("\nconvert %s %s %s assign ", name, vn, itn); dump(v.data(), v.size()); std::printf("|"); dump(ref, n);
  }
  {
    V v; v.push_back(filler); v.push_back(filler);
    v.insert(v.begin() + 1, first, last);
    ref3[0] = filler; std::copy(first, last, ref3 + 1); ref3[n + 1] = filler;
    std::printf("\nconvert %s %s %s insert ", name, vn, itn); dump(v.data(), v.size()); std::printf("|"); dump(ref3, n + 2);
  }
}
template <class D, class S> static void conv(const char *name, std::initializer_list<S> vals) {
  S arr[8]; std::size_t n = 0;
  for (typename std::initializer_list<S>::const_iterator it = vals.begin(); it != vals.end(); ++it) arr[n++] = *it;
  std::list<S> l(arr, arr + n);
  conv_one<amc::vector<D>, D>(name, "vector", "pointer", arr, arr + n, n);
  conv_one<amc::SmallVector<D, 4>, D>(name, "SmallVector4", "pointer", arr, arr + n, n);
  conv_one<amc::SmallVector<D, 12>, D>(name, "SmallVector12", "pointer", arr, arr + n, n);
  conv_one<amc::FixedCapacityVector<D, 14>, D>(name, "FixedCapacityVector14", "pointer", arr, arr + n, n);
  conv_one<amc::vector<D>, D>(name, "vector", "list", l.begin(), l.end(), n);
  conv_one<amc::SmallVector<D, 12>, D>(name, "SmallVector12", "list", l.begin(), l.end(), n);
}
static void conversions() {
  conv<bool, unsigned char>("bool<-uchar", {0, 1, 2, 0x80, 255, 0});
  conv<bool, char>("bool<-char", {0, 1, 4, 'a', 0});
  conv<bool, signed char>("bool<-schar", {0, -1, 2, 1});
  conv<bool, int>("bool<-int", {0, 1, 256, -1, 65536});
  conv<unsigned char, bool>("uchar<-bool", {true, false, true});
  conv<unsigned char, int>("uchar<-int", {255, 256, 257, -1, 7});
  conv<signed char, unsigned char>("schar<-uchar", {0, 127, 128, 255});
  conv<char, unsigned char>("char<-uchar", {0, 127, 128, 255});
  conv<int, unsigned char>("int<-uchar", {0, 200, 255});
  conv<int, unsigned>("int<-unsigned", {0u, 5u, 4000000000u});
  conv<unsigned, int>("unsigned<-int", {0, -1, 7});
  conv<short, unsigned short>("short<-ushort", {static_cast<unsigned short>(1), static_cast<unsigned short>(65535), static_cast<unsigned short>(32768)});
  conv<long long, int>("longlong<-int", {-5, 6, 0});
  conv<long, long long>("long<-longlong", {-5ll, 1ll << 40});
  conv<int, long long>("int<-longlong", {-5ll, (1ll << 40) + 3});
  conv<float, int>("float<-int", {1, -2, 16777217});
  conv<int, float>("int<-float", {1.5f, -2.75f, 100.0f});
  conv<double, float>("double<-float", {1.5f, 0.1f});
  conv<int, double>("int<-double", {1.9, -1.9, 1e6});
  conv<unsigned long, unsigned>("ulong<-unsigned", {1u, 4000000000u});
}
int main() {
  typedef amc::vector<int> V; typedef amc::SmallVector<int, 4> SV; typedef amc::FixedCapacityVector<int, 4> F; typedef amc::FlatSet<int> S;
  std::printf("vector:%d%d%d smallvector:%d%d%d fcv:%d%d%d flatset:%d%d%d%d%d std:%d%d smallset_macro:%d\n",
    int(has_append<V>::value), int(has_pop_back_val<V>::value), int(has_swap2<V>::value),
    int(has_append<SV>::value), int(has_pop_back_val<SV>::value), int(has_swap2<SV>::value),
    int(has_append<F>::value), int(has_pop_back_val<F>::value), int(has_swap2<F>::value),
    int(has_steal_vector<S>::value), int(has_data<S>::value), int(has_capacity<S>::value), int(has_reserve<S>::value), int(has_index<S>::value),
    int(has_push_back<V>::value), int(has_data<V>::value),
#ifdef AMC_SMALLSET
    1
#else
    0
#endif
  );
  std_api_vec<V>("vector"); std_api_vec<SV>("SmallVector"); std_api_vec<F>("FixedCapacityVector"); std_api_set<S>("FlatSet");
  facts_for<char>("char"); facts_for<short>("short"); facts_for<B3<3> >("b3"); facts_for<B3<5> >("b5"); facts_for<B3<6> >("b6"); facts_for<B3<7> >("b7"); facts_for<int>("int");
  facts_for<double>("double"); facts_for<NT>("nontrivial"); facts_for<TS>("throwing_swap"); facts_for<TA>("tr_throwing_assign"); facts_for<TM>("throwing_move");
  facts_for<std::pair<int, NT> >("pair_int_nt"); facts_for<std::pair<char, int> >("pair_char_int");
  conversions();
  std::printf("\n");
  return 0;
}
''')
    exe = work / ('absent_%s' % bname(b))
    cmd = ['g++', '-std=c++' + std, '-O0', '-w', '-I' + str(D.REPO / 'include')] + (['-DAMC_NONSTD_FEATURES'] if extras else []) + [str(src), '-o', str(exe)]
    rc, out, err, _ = D.run_proc(cmd, timeout=600)
    if rc != 0:
        return None, 'absence probe does not compile for %s: %s' % (bname(b), err[-800:])
    rc, out, err, _ = D.run_proc([str(exe)])
    exp_bits = '1' if extras else '0'
    expect = 'vector:%s smallvector:%s fcv:%s flatset:%s std:11 smallset_macro:%d' % (exp_bits * 3, exp_bits * 3, exp_bits * 3, exp_bits * 5, 1 if std in ('17', '20') else 0)
    got, _, static = out.strip().partition('\n')
    got = got.strip()
    msg = None
    if got != expect:
        msg = '%s: extras detection is "%s", expected "%s"' % (bname(b), got, expect)
    # smallset.hpp before C++17 must not be usable
    if std in ('11', '14'):
        s2 = work / ('ss_%s.cpp' % bname(b))
        s2.write_text('#include <amc/smallset.hpp>\nint main() { amc::SmallSet<int, 4> s; s.insert(1); return s.size() == 1 ? 0 : 1; }\n')
        rc2, _, _, _ = D.run_proc(['g++', '-std=c++' + std, '-O0', '-w', '-fsyntax-only', '-I' + str(D.REPO / 'include'), str(s2)], timeout=600)
        if rc2 == 0:
            msg = (msg or '') + ' %s: smallset.hpp compiles before C++17 (it must be absent)' % bname(b)
    return (got, static), msg


def run(tier, seed, only=None):
    """only: (cfg, level, tape_lines) for a replay"""
    t0 = time.time()
    builds = ALL_BUILDS if tier == 'thorough' else QUICK_BUILDS
    ntapes = 1500 if tier == 'thorough' else 600
    work = D.BUILD / 'run' / ('C16_%d' % os.getpid())
    if work.exists():
        shutil.rmtree(work, ignore_errors=True)
    work.mkdir(parents=True)
    cfgs = VEC + FS + SS
    if only:
        cfgs = [only[0]]
    # ---- compile-time probes first: a standard member missing in one configuration would already break the interpreters' build
    absent = D.pool_map(lambda b: (b, absent_probe(b, work)), builds) if not only else []
    absent_msgs = [m for (_, (got, m)) in absent if m]
    for (b, (got, m)) in absent:
        if not got:
            continue
        for line in got[1].splitlines():
            w = line.split()
            if len(w) == 6 and w[0] == 'convert' and w[5].split('|')[0] != w[5].split('|')[-1]:
                absent_msgs.append('%s: %s %s(%s range) with elements converted %s holds bytes %s, converting element by element gives %s'
                                   % (bname(b), w[2], w[4], w[3], w[1], w[5].split('|')[0], w[5].split('|')[-1]))
            if len(w) == 3 and w[0] == 'stdapi' and set(w[2]) != {'1'}:
                absent_msgs.append('%s: a member of the standard interface of %s is not callable (detection bits %s; 0 = absent or inaccessible)' % (bname(b), w[1], w[2]))
    # compile-time facts (sizeof, noexcept, traits) printed by the same probe: identical in every build
    facts = [(b, got[1]) for (b, (got, m)) in absent if got]
    if facts:
        ref_b, ref = facts[0]
        for b, f in facts[1:]:
            if f != ref:
                la, lb = ref.splitlines(), f.splitlines()
                for x, y in zip(la, lb):
                    if x != y:
                        wa, wb = x.split(), y.split()
                        d = [(p, q) for p, q in zip(wa, wb) if p != q][:3]
                        if wa and wa[0] == 'convert':
                            absent_msgs.append('converting range operation differs between %s and %s: "%s" gives %s vs %s' % (bname(ref_b), bname(b), ' '.join(wa[:5]), wa[-1], wb[-1]))
                            break
                        absent_msgs.append('compile-time facts differ between %s and %s for "%s": %s (name:sizeof/alignof/nothrow move-construct, move-assign, swap, trivially relocatable, trivially destructible)'
                                           % (bname(ref_b), bname(b), ' '.join(wa[:2]), ', '.join('%s vs %s' % pq for pq in d)))
                        break
                break

    def early_result(absent, absent_msgs):
        return {'mismatches': [], 'absent_msgs': absent_msgs, 'stats': {'tapes': 0, 'nontrivial_tapes': 0, 'transcripts': 0, 'ops': 0, 'distinct_nontrivial': 0},
                'groups': {}, 'samples': [], 'builds': [bname(b) for b in builds], 'wall': time.time() - t0,
                'absence_table': {bname(b): got[0] for (b, (got, m)) in absent if got}, 'static_fact_lines': 0}
    if absent_msgs and not only:
        shutil.rmtree(work, ignore_errors=True)
        return early_result(absent, absent_msgs)
    # ---- build everything
    units = {}
    for cfg in cfgs:
        for b in builds:
            if cfg in SS and b[0] in ('11', '14'):
                continue
            units[(cfg, b)] = unit(cfg, b)
    gens = {cfg: gen_unit(cfg) for cfg in cfgs}
    exes = D.ensure_built(list(units.values()) + list(gens.values()))
    # ---- corpora: level 2 = portable (every build), level 1 = everything C++17 extras builds offer
    corpora = {}
    for cfg in cfgs:
        for level in (2, 1):
            if only and level != only[1]:
                continue
            f = work / ('%s_L%d.tapes' % (cfg, level))
            if only:
                f.write_text('\n'.join(only[2]) + '\n\n')
            else:
                s = D.derive_seed(seed, 'C16', cfg, level)
                rc, out, err, _ = D.run_proc([exes[gens[cfg].name], '--prop', 'C16', '--cases', ntapes, '--maxlen', 40, '--seed', s, '--emit-tapes', f, '--portability', level])
                if rc != 0 or not f.exists():
                    return {'error': 'tape generation failed for %s: %s' % (cfg, err[-500:])}
            corpora[(cfg, level)] = f
    # ---- replay in every build
    jobs = []
    for (cfg, level), f in corpora.items():
        for b in builds:
            if (cfg, b) not in units:
                continue
            if level == 1 and not (b[1] == 1 and b[0] in ('17', '20')):
                continue
            jobs.append((cfg, level, b, f))

    def one(j):
        cfg, level, b, f = j
        out = work / ('%s_L%d_%s.tr' % (cfg, level, bname(b)))
        rc, so, se, _ = D.run_proc([exes[units[(cfg, b)].name], '--prop', 'C16', '--transcript', f, out, '--portability', level], timeout=1800)
        return (j, rc, out, se[-600:])
    results = D.pool_map(one, jobs)
    # ---- compare
    mismatches, per_group = [], {}
    stats = {'tapes': 0, 'nontrivial_tapes': 0, 'transcripts': 0, 'ops': 0}
    distinct = set()
    samples = []
    for (cfg, level) in corpora:
        group = [(j, rc, out, se) for (j, rc, out, se) in results if j[0] == cfg and j[1] == level]
        if not group:
            continue
        texts = {}
        for (j, rc, out, se) in group:
            if rc != 0 or not out.exists():
                mismatches.append({'config': cfg, 'level': level, 'build': bname(j[2]), 'tape': None, 'msg': 'interpreter died (rc %s): %s' % (rc, se)})
                continue
            texts[bname(j[2])] = out.read_text().split('tape ')
            stats['transcripts'] += 1
        names = sorted(texts)
        if len(names) < 2:
            continue
        ref = texts[names[0]]
        stds = set(n.split('_')[0] for n in names)
        tapes_txt = corpora[(cfg, level)].read_text().split('\n\n')
        for idx in range(1, len(ref)):
            blk = ref[idx]
            tno = int(blk.split('\n', 1)[0])
            stats['tapes'] += 1
            stats['ops'] += blk.count('\nop ')
            nt = 'end nontrivial=1' in blk and len(stds) >= 2
            if nt:
                stats['nontrivial_tapes'] += 1
                distinct.add(hashlib.sha1((cfg + blk).encode()).hexdigest())
                if len(samples) < 8 and idx % 37 == 5:
                    samples.append({'config': cfg, 'portability_level': level, 'builds': names, 'transcript': blk[:600]})
            if 'VIOLATION' in blk:
                mismatches.append({'config': cfg, 'level': level, 'build': names[0], 'tape': tno, 'msg': 'violation inside a build: ' + blk[blk.index('VIOLATION'):][:300],
                                   'tape_text': tapes_txt[tno] if tno < len(tapes_txt) else ''})
            for n in names[1:]:
                other = texts[n]
                if idx >= len(other) or other[idx] != blk:
                    a = blk.splitlines()
                    bl = other[idx].splitlines() if idx < len(other) else []
                    diffline = next((k for k in range(min(len(a), len(bl))) if a[k] != bl[k]), min(len(a), len(bl)))
                    mismatches.append({'config': cfg, 'level': level, 'build': '%s vs %s' % (names[0], n), 'tape': tno,
                                       'msg': 'transcripts differ at line %d: "%s" vs "%s"' % (diffline, (a[diffline] if diffline < len(a) else '<end>')[:160], (bl[diffline] if diffline < len(bl) else '<end>')[:160]),
                                       'tape_text': tapes_txt[tno] if tno < len(tapes_txt) else ''})
                    break
        per_group['%s/L%d' % (cfg, level)] = {'builds': names, 'tapes': len(ref) - 1}
    shutil.rmtree(work, ignore_errors=True)
    stats['distinct_nontrivial'] = len(distinct)
    return {'mismatches': mismatches, 'absent_msgs': absent_msgs, 'stats': stats, 'groups': per_group, 'samples': samples,
            'builds': [bname(b) for b in builds], 'wall': time.time() - t0, 'absence_table': {bname(b): got[0] for (b, (got, m)) in absent if got},
            'static_fact_lines': len(facts[0][1].splitlines()) if facts else 0}
