# fuzz.py - libFuzzer campaigns (thorough tier): coverage-guided mutation of the same op tapes, clang ASan+UBSan, asserts on.
import json
import os
import shutil
import time
from pathlib import Path

from . import configs as C
from . import driver as D
from . import interp_check as IC

FUZZ_VEC = ['sv_4_ntr_u8_amc', 'sv_3_ntr_u32_std', 'sv_2_tr_u8_re', 'vec_0_tr_u32_re', 'vec_0_ntr_u32_std', 'sv_8_tr_u64_std', 'fcv_6_ntr', 'sv_2_tc3_u32_amc',
            'sv_3_ntr_u16_re', 'sv_1_ntr_i16_std', 'vec_0_tr_i8_std', 'sv_250_i32_u8_std']
FUZZ_FS = ['fs_stateful_amcvec_ntr_amc', 'fs_coarse_stdvec_ntr_std', 'fs_less_sv4_ntr_std', 'fs_greater_fcv24_tr', 'fs_transparent_amcvec_tr_re']
FUZZ_SS = ['ss_3_less_stdset_ntr_std', 'ss_2_stateful_flatvec_ntr_std', 'ss_1_coarse_stdset_tr_std', 'ss_5_greater_flatsv_ntr_amc', 'ss_3_greater_flatstd_ntr_std']


def fuzz_unit(cfg):
    d = {'AMC_NONSTD_FEATURES': None, 'VF_NAME': '"%s"' % cfg}
    if cfg in C.VEC_TYPES:
        d['VF_V'] = C.VEC_TYPES[cfg]
        src = 'targets/fuzz_vec.cpp'
    elif cfg in C.FS_DEFS:
        d.update(C.FS_DEFS[cfg])
        src = 'targets/fuzz_flatset.cpp'
    else:
        d.update(C.SS_DEFS[cfg])
        src = 'targets/fuzz_smallset.cpp'
    return D.Unit('fz_' + cfg, src, d, std='17', kind='fuzz', engine=False, extra=['-std=gnu++17'])


def replay_unit(cfg):
    from . import props as P
    if cfg in C.VEC_TYPES:
        return P.vec_unit(cfg)
    if cfg in C.FS_DEFS:
        return P.fs_unit(cfg)
    return P.ss_unit(cfg)


def bytes_to_tape(raw, prop, cfg, note=''):
    ops = []
    for i in range(0, len(raw) - len(raw) % 5, 5):
        ops.append('%d %d %d %d %d' % tuple(raw[i:i + 5]))
    return 'check=%s config=%s%s' % (prop, cfg, ('  # ' + note) if note else ''), ops


def run(prop, cfgs, seed, runs, max_time, rule, crash_is_violation=True):
    """returns (coverage dict, violations, wall)"""
    t0 = time.time()
    work = D.BUILD / 'run' / ('fuzz_%s_%d' % (prop, os.getpid()))
    if work.exists():
        shutil.rmtree(work, ignore_errors=True)
    work.mkdir(parents=True)
    units = {c: fuzz_unit(c) for c in cfgs}
    runits = {c: replay_unit(c) for c in cfgs}
    exes = D.ensure_built(list(units.values()) + list(runits.values()))
    res = IC.Result()

    def one(cfg):
        d = work / cfg
        (d / 'corpus').mkdir(parents=True)
        (d / 'art').mkdir()
        s = D.derive_seed(seed, prop, 'fuzz', cfg)
        stats = d / 'stats.json'
        cmd = [exes[units[cfg].name], '-runs=%d' % runs, '-seed=%d' % s, '-max_len=600', '-len_control=0', '-max_total_time=%d' % max_time, '-print_final_stats=1',
               '-artifact_prefix=%s/' % (d / 'art'), '-timeout=60', '-rss_limit_mb=3000', str(d / 'corpus')]
        rc, out, err, wall = D.run_proc(cmd, env={'VF_PROP': prop, 'VF_STATS': str(stats)}, timeout=max_time + 600)
        return cfg, rc, err, wall, stats, d

    for cfg, rc, err, wall, stats, d in D.pool_map(one, cfgs):
        st = None
        if stats.exists():
            try:
                st = json.loads(stats.read_text())
                st['wall_s'] = round(wall, 1)
                st['label'] = '/libfuzzer'
                res.stats.append(st)
            except Exception:
                pass
        execs = [l for l in err.splitlines() if 'number_of_executed_units' in l]
        arts = sorted((d / 'art').glob('crash-*')) + sorted((d / 'art').glob('leak-*'))
        if 'ALARM' in err or sorted((d / 'art').glob('timeout-*')) or sorted((d / 'art').glob('oom-*')):
            res.inconclusive.append('%s: libFuzzer timeout/oom artefact (load noise, not a violation)' % cfg)
        for a in arts[:2]:
            raw = a.read_bytes()
            msg = ''
            for l in err.splitlines():
                if l.startswith('VF-FAIL'):
                    msg = l.split('msg=', 1)[-1]
            if not msg:
                msg = 'crash: ' + IC.crash_signature(err)
            hdr, ops = bytes_to_tape(raw, prop, cfg, msg)
            tape = d / (a.name + '.tape')
            D.write_tape(tape, hdr, ops)
            rexe = exes[runits[cfg].name]
            r, o, e = IC.replay_once(rexe, prop, tape)
            kind = IC.classify_rc(r)
            if kind == 'fail':
                IC.confirm_and_store(res, rexe, prop, cfg, tape, msg, want='fail')
            elif kind == 'crash' and crash_is_violation:
                IC.confirm_and_store(res, rexe, prop, cfg, tape, 'crash: ' + IC.crash_signature(e), want='crash')
            elif kind == 'crash':
                res.crashed_elsewhere += 1
            else:
                res.unreproduced.append({'config': cfg, 'message': 'libFuzzer artefact %s does not reproduce in the g++ replay build: %s' % (a.name, msg)})
        if rc != 0 and not arts:
            res.notes.append('%s: libFuzzer exited %s without artefact: %s' % (cfg, rc, err[-200:]))
        if not execs:
            res.inconclusive.append('%s: no final stats' % cfg)
    cov = IC.merge_coverage(res, rule)
    cov['exhaustive'] = False
    cov['engine'] = 'libFuzzer (clang 14, -fsanitize=fuzzer,address,undefined), -runs=%d per configuration, empty starting corpus' % runs
    shutil.rmtree(work, ignore_errors=True)
    return cov, res.violations, time.time() - t0
