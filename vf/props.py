# props.py - per-property check definitions.
import time

from . import configs as C
from . import driver as D
from . import interp_check as IC

NONSTD = {'AMC_NONSTD_FEATURES': None}


def vec_unit(name, std='17'):
    d = dict(NONSTD)
    d['VF_V'] = C.VEC_TYPES[name]
    uname = name if std == '17' else '%s_cxx%s' % (name, std)
    d['VF_NAME'] = '"%s"' % uname
    return D.Unit(uname, 'targets/vec_main.cpp', d, std=std, kind='asan', engine=True)


def budget(tier, quick, thorough):
    return thorough if tier == 'thorough' else quick


class Part:
    def __init__(self, name, coverage, violations, wall=0.0, known_hits=None):
        self.name, self.coverage, self.violations, self.wall = name, coverage, violations, wall
        self.known_hits = known_hits or []


def interp_part(prop, name, jobs, seed, rule, crash_is_violation, crash_class_codes=None):
    res = IC.run_jobs(prop, jobs, seed, crash_is_violation, crash_class_codes)
    cov = IC.merge_coverage(res, rule)
    return Part(name, cov, res.violations, res.wall)


def vec_jobs(names, cases, maxlen, stds=('17',)):
    jobs = []
    for n in names:
        for s in stds:
            if s != '17' and n not in C.VEC_MULTISTD:
                continue
            jobs.append({'unit': vec_unit(n, s), 'cases': cases, 'maxlen': maxlen})
    return jobs


VEC_RULES = {
    'C01': 'random op tapes (rapidcheck, 49 op codes over a pool of 3 containers) per configuration; non-trivial = >=6 mutating ops and '
           'at least one boundary feature (inline->heap growth, heap->inline shrink, move/swap across storage states or unequal fill, '
           'interior insert/erase, empty-range erase, non-pointer range source, aliasing argument, limit error); distinct = distinct '
           'hash of the effective (decoded) op trace within a configuration',
    'C02': 'as C01 with identity-tracking elements; non-trivial additionally requires a relocation event (growth, shrink, interior '
           'insert/erase, move/swap across storage states); distinct = effective trace hash per configuration',
    'C05': 'tapes under the within-N discipline (slots 0,1 clamped to N, slot 2 free); non-trivial = a copy/move/swap between two '
           'containers that both still carry the inline promise, with unequal fill and one of them exactly full (for '
           'FixedCapacityVector: the C01 rule); distinct = effective trace hash',
    'C06': 'tapes on ledger allocators with hand-over ops weighted up; non-trivial = >=2 heap blocks observed and >=1 ownership '
           'transfer (move/swap of a heap buffer) or shrink back to inline; distinct = effective trace hash',
    'C07': 'tapes with data()/capacity()/element identity snapshots around every op; non-trivial = >=1 op fitting the capacity at a '
           'strictly interior position and >=1 heap buffer hand-over (FixedCapacityVector: interior op only); distinct = trace hash',
}


def merge_parts(parts, rule):
    cov = {'evaluations': 0, 'distinct_nontrivial': 0, 'rule': rule, 'samples': [], 'parts': {}}
    exhaustive_all = True
    for p in parts:
        c = p.coverage
        cov['evaluations'] += int(c.get('evaluations', 0))
        cov['distinct_nontrivial'] += int(c.get('distinct_nontrivial', 0))
        for s in c.get('samples', [])[:6]:
            if len(cov['samples']) < 16:
                cov['samples'].append({'part': p.name, 'case': s})
        sub = {k: v for k, v in c.items() if k != 'samples'}
        sub['wall_s'] = round(p.wall, 2)
        cov['parts'][p.name] = sub
        if not c.get('exhaustive'):
            exhaustive_all = False
    if parts and exhaustive_all:
        cov['exhaustive'] = True
    return cov


def finish(prop, tier, seed, level, parts, rule, assumptions, t0):
    viol = []
    known_hits = []
    for p in parts:
        viol += p.violations
        known_hits += p.known_hits
    cov = merge_parts(parts, rule)
    cov['known_findings_hit'] = known_hits
    if cov['evaluations'] < 1 or cov['distinct_nontrivial'] < 2:
        # a check that explored nothing must not pass silently
        print('ERROR property=%s explored too little (evaluations=%d, distinct_nontrivial=%d)' % (prop, cov['evaluations'], cov['distinct_nontrivial']))
        D.write_evidence(prop, tier, seed, level, dict(cov, evaluations=max(1, cov['evaluations']), distinct_nontrivial=max(2, cov['distinct_nontrivial']),
                                                      error='explored too little'), time.time() - t0, len(viol), assumptions)
        return 2
    D.write_evidence(prop, tier, seed, level, cov, time.time() - t0, len(viol), assumptions)
    for k in known_hits:
        print('KNOWN-FINDING: property=%s %s' % (prop, k))
    for path, msg in viol:
        print('VIOLATION property=%s replay=%s' % (prop, path))
        print('  ' + (msg or ''))
    inconc = [x for p in parts for x in p.coverage.get('inconclusive', [])]
    print('%s %s: evaluations=%d distinct_nontrivial=%d violations=%d%s wall=%.1fs' % (
        prop, tier, cov['evaluations'], cov['distinct_nontrivial'], len(viol), (' inconclusive=%d' % len(inconc)) if inconc else '', time.time() - t0))
    return 1 if viol else 0


ASSUME_COMMON = ['the reference model is libstdc++ std::vector<int>/std::set<int>; instrumented element, allocator, iterator and comparator types '
                 'observe the library only through its public API', 'g++ 12 AddressSanitizer/UBSan report memory errors and undefined behaviour',
                 'held on everything explored: generated-input search does not establish absence']


def check_C01(tier, seed, t0):
    cases, maxlen = budget(tier, (20000, 60), (400000, 80))
    parts = [interp_part('C01', 'vector_histories', vec_jobs([n for n, _ in C.VEC_CONFIGS], cases, maxlen), seed, VEC_RULES['C01'], True)]
    return finish('C01', tier, seed, 'exploration', parts, VEC_RULES['C01'], ASSUME_COMMON, t0)


def check_C02(tier, seed, t0):
    cases, maxlen = budget(tier, (20000, 60), (300000, 80))
    names = C.vec_subset(C.is_tracked)
    jobs = vec_jobs(names, cases, maxlen) + vec_jobs(C.VEC_MULTISTD, cases, maxlen, stds=('11', '14', '20'))
    parts = [interp_part('C02', 'vector_histories', jobs, seed, VEC_RULES['C02'], True)]
    return finish('C02', tier, seed, 'exploration', parts, VEC_RULES['C02'], ASSUME_COMMON, t0)


def check_C05(tier, seed, t0):
    cases, maxlen = budget(tier, (30000, 60), (400000, 80))
    names = C.vec_subset(lambda n: C.is_sv(n) or C.is_fcv(n))
    parts = [interp_part('C05', 'vector_histories', vec_jobs(names, cases, maxlen), seed, VEC_RULES['C05'], False)]
    return finish('C05', tier, seed, 'exploration', parts, VEC_RULES['C05'],
                  ASSUME_COMMON + ['malloc/new are counted through __sanitizer_install_malloc_and_free_hooks inside op windows'], t0)


def check_C06(tier, seed, t0):
    cases, maxlen = budget(tier, (20000, 60), (300000, 80))
    names = C.vec_subset(lambda n: not C.is_fcv(n))
    parts = [interp_part('C06', 'vector_histories', vec_jobs(names, cases, maxlen), seed, VEC_RULES['C06'], False)]
    return finish('C06', tier, seed, 'exploration', parts, VEC_RULES['C06'], ASSUME_COMMON + ['all allocator instances compare equal'], t0)


def check_C07(tier, seed, t0):
    cases, maxlen = budget(tier, (20000, 60), (300000, 80))
    parts = [interp_part('C07', 'vector_histories', vec_jobs([n for n, _ in C.VEC_CONFIGS], cases, maxlen), seed, VEC_RULES['C07'], False)]
    return finish('C07', tier, seed, 'exploration', parts, VEC_RULES['C07'], ASSUME_COMMON, t0)


CHECKS = {'C01': check_C01, 'C02': check_C02, 'C05': check_C05, 'C06': check_C06, 'C07': check_C07}


def all_units():
    us = [vec_unit(n) for n, _ in C.VEC_CONFIGS]
    for s in ('11', '14', '20'):
        us += [vec_unit(n, s) for n in C.VEC_MULTISTD]
    return us


def replay(prop, path):
    """./check Cxx --replay file: rebuild what is needed, run the case once, exit 1 if it still fails"""
    header, ops = D.read_tape(path)
    kv = dict(x.split('=', 1) for x in header.split('#')[0].split() if '=' in x)
    cfg = kv.get('config', '')
    unit = None
    for u in all_units():
        if u.name == cfg:
            unit = u
    if unit is None:
        print('replay: unknown config %r' % cfg)
        return 2
    exe = D.ensure_built([unit])[unit.name]
    rc, out, err = IC.replay_once(exe, prop, path)
    print(out.strip())
    if rc not in (0, 1):
        print(IC.crash_signature(err))
        print('VIOLATION property=%s replay=%s' % (prop, path))
        return 1
    if rc == 1:
        print('VIOLATION property=%s replay=%s' % (prop, path))
    return rc
