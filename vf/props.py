# props.py - per-property check definitions.
import re
import time

from . import configs as C
from . import driver as D
from . import interp_check as IC

NONSTD = {'AMC_NONSTD_FEATURES': None}


def vec_unit(name, std='17'):
    d = dict(NONSTD)
    d['VF_V'] = C.VEC_TYPES[name]
    uname = name if std == '17' else '%s_cxx%s' % (name, std)
    d['VF_NAME'] = '"%s"' % uname
    return D.Unit(uname, 'targets/vec_main.cpp', d, std=std, kind='asan', engine=True)


def fs_unit(name, std='17'):
    d = dict(NONSTD)
    d.update(C.FS_DEFS[name])
    uname = name if std == '17' else '%s_cxx%s' % (name, std)
    d['VF_NAME'] = '"%s"' % uname
    return D.Unit(uname, 'targets/flatset_main.cpp', d, std=std, kind='asan', engine=True)


def fs_jobs(names, cases, maxlen, stds=('17',)):
    jobs = []
    for n in names:
        for s in stds:
            if s != '17' and n not in C.FS_MULTISTD:
                continue
            jobs.append({'unit': fs_unit(n, s), 'cases': cases, 'maxlen': maxlen})
    return jobs


def ss_unit(name, std='17'):
    d = dict(NONSTD)
    d.update(C.SS_DEFS[name])
    uname = name if std == '17' else '%s_cxx%s' % (name, std)
    d['VF_NAME'] = '"%s"' % uname
    return D.Unit(uname, 'targets/smallset_main.cpp', d, std=std, kind='asan', engine=True)


def ss_jobs(names, cases, maxlen, stds=('17',)):
    return [{'unit': ss_unit(n, s), 'cases': cases, 'maxlen': maxlen} for n in names for s in stds]


def budget(tier, quick, thorough):
    return thorough if tier == 'thorough' else quick


class Part:
    def __init__(self, name, coverage, violations, wall=0.0, known_hits=None):
        self.name, self.coverage, self.violations, self.wall = name, coverage, violations, wall
        self.known_hits = known_hits or []


def interp_part(prop, name, jobs, seed, rule, crash_is_violation, crash_class_codes=None):
    res = IC.run_jobs(prop, jobs, seed, crash_is_violation, crash_class_codes)
    cov = IC.merge_coverage(res, rule)
    return Part(name, cov, res.violations, res.wall)


def vec_jobs(names, cases, maxlen, stds=('17',)):
    jobs = []
    for n in names:
        for s in stds:
            if s != '17' and n not in C.VEC_MULTISTD:
                continue
            jobs.append({'unit': vec_unit(n, s), 'cases': cases, 'maxlen': maxlen})
    return jobs


def fuzz_parts(prop, tier, seed, kinds, crash_is_violation):
    """libFuzzer campaigns belong to the thorough tier only"""
    if tier != 'thorough':
        return []
    from . import fuzz
    cfgs = []
    if 'vec' in kinds:
        cfgs += fuzz.FUZZ_VEC
    if 'fs' in kinds:
        cfgs += fuzz.FUZZ_FS
    if 'ss' in kinds:
        cfgs += fuzz.FUZZ_SS
    if prop == 'C05':
        cfgs = [c for c in cfgs if c.startswith(('sv_', 'fcv_', 'ss_'))]
    if prop == 'C06':
        cfgs = [c for c in cfgs if 'fcv' not in c]
    if prop == 'C14':
        cfgs = [c for c in cfgs if c.startswith('vec_') or ('_ntr' not in c and '_mo' not in c)]
    rule = ('coverage-guided mutation (libFuzzer) of the same 5-byte op tapes, one campaign per configuration, semantic oracles of the interpreter inside the '
            'target; non-trivial / distinct as for the rapidcheck histories of this property')
    cov, viol, wall = fuzz.run(prop, cfgs, seed, runs=400000, max_time=1500, rule=rule, crash_is_violation=crash_is_violation)
    return [Part('libfuzzer_campaigns', cov, viol, wall)]


VEC_RULES = {
    'C01': 'random op tapes (rapidcheck, 49 op codes over a pool of 3 containers) per configuration; non-trivial = >=6 mutating ops and '
           'at least one boundary feature (inline->heap growth, heap->inline shrink, move/swap across storage states or unequal fill, '
           'interior insert/erase, empty-range erase, non-pointer range source, aliasing argument, limit error); distinct = distinct '
           'hash of the effective (decoded) op trace within a configuration',
    'C02': 'as C01 with identity-tracking elements; non-trivial additionally requires a relocation event (growth, shrink, interior '
           'insert/erase, move/swap across storage states); distinct = effective trace hash per configuration',
    'C05': 'tapes under the within-N discipline (slots 0,1 clamped to N, slot 2 free); non-trivial = a copy/move/swap between two '
           'containers that both still carry the inline promise, with unequal fill and one of them exactly full (for '
           'FixedCapacityVector: the C01 rule); distinct = effective trace hash',
    'C06': 'tapes on ledger allocators with hand-over ops weighted up; non-trivial = >=2 heap blocks observed and >=1 ownership '
           'transfer (move/swap of a heap buffer) or shrink back to inline; distinct = effective trace hash',
    'C07': 'tapes with data()/capacity()/element identity snapshots around every op; non-trivial = >=1 op fitting the capacity at a '
           'strictly interior position and >=1 heap buffer hand-over (FixedCapacityVector: interior op only); distinct = trace hash',
}


def merge_parts(parts, rule):
    cov = {'evaluations': 0, 'distinct_nontrivial': 0, 'rule': rule, 'samples': [], 'parts': {}}
    exhaustive_all = True
    for p in parts:
        c = p.coverage
        cov['evaluations'] += int(c.get('evaluations', 0))
        cov['distinct_nontrivial'] += int(c.get('distinct_nontrivial', 0))
        for s in c.get('samples', [])[:6]:
            if len(cov['samples']) < 16:
                cov['samples'].append({'part': p.name, 'case': s})
        sub = {k: v for k, v in c.items() if k != 'samples'}
        sub['wall_s'] = round(p.wall, 2)
        cov['parts'][p.name] = sub
        if not c.get('exhaustive'):
            exhaustive_all = False
    if parts and exhaustive_all:
        cov['exhaustive'] = True
    return cov


def corpus_part(prop):
    """the seconds-long replay tier: minimal tapes that once exposed a (seeded or real) defect must pass on the tree under test"""
    d = D.ROOT / 'corpus' / 'regress' / prop
    tapes = sorted(d.glob('*.tape')) if d.exists() else []
    if not tapes:
        return None
    t0 = time.time()
    units = {u.name: u for u in all_units()}
    todo = []
    for t in tapes:
        first = t.read_text().split('\n', 1)[0]
        kv = dict(x.split('=', 1) for x in first.split('#')[0].split() if '=' in x)
        if kv.get('config') in units:
            todo.append((t, units[kv['config']]))
    exes = D.ensure_built([u for _, u in todo], tolerate=True)  # a changed tree may break one configuration only: its tapes are left out (NOTE line)
    todo = [(t, u) for t, u in todo if u.name in exes]
    viol, samples = [], []

    def one(tu):
        t, u = tu
        rc, out, err = IC.replay_once(exes[u.name], prop, t)
        return t, rc, out, err
    for t, rc, out, err in D.pool_map(one, todo):
        if rc != 0:
            msg = out.strip().split('msg=', 1)[-1] if 'msg=' in out else IC.crash_signature(err)
            viol.append((str(t), 'regression tape fails: ' + msg[:300]))
        elif len(samples) < 3:
            samples.append(t.read_text()[:300])
    cov = {'evaluations': len(todo), 'distinct_nontrivial': len(todo), 'rule': 'replay of the committed minimal tapes under corpus/regress/%s (each once failed on a defective tree)' % prop,
           'samples': samples, 'exhaustive': False}
    return Part('regression_replays', cov, viol, time.time() - t0)


def finish(prop, tier, seed, level, parts, rule, assumptions, t0):
    cp = corpus_part(prop) if prop not in ('C16', 'C17') else None  # their replays are differential / generated rows, not single tapes
    if cp is not None:
        parts = [cp] + list(parts)
    viol = []
    known_hits = []
    for p in parts:
        viol += p.violations
        known_hits += p.known_hits
    cov = merge_parts(parts, rule)
    cov['known_findings_hit'] = known_hits
    if not viol and (cov['evaluations'] < 1 or cov['distinct_nontrivial'] < 2):
        # a check that explored nothing must not pass silently
        print('ERROR property=%s explored too little (evaluations=%d, distinct_nontrivial=%d)' % (prop, cov['evaluations'], cov['distinct_nontrivial']))
        D.write_evidence(prop, tier, seed, level, dict(cov, evaluations=max(1, cov['evaluations']), distinct_nontrivial=max(2, cov['distinct_nontrivial']),
                                                      error='explored too little'), time.time() - t0, len(viol), assumptions)
        return 2
    if viol:
        cov['stopped_at_first_violation'] = True
    D.write_evidence(prop, tier, seed, level, cov, time.time() - t0, len(viol), assumptions)
    for k in known_hits:
        print('KNOWN-FINDING: property=%s %s' % (prop, k))
    for path, msg in viol:
        print('VIOLATION property=%s replay=%s' % (prop, path))
        print('  ' + (msg or ''))
    inconc = [x for p in parts for x in p.coverage.get('inconclusive', [])]
    unrep = [x for p in parts for x in p.coverage.get('unreproduced', [])]
    for x in unrep[:5]:
        # a failure that does not replay three times is not reported as a violation (no replay file to give), but it is never silent
        print('NOTE unreproduced failure (%s): %s' % (x.get('config'), str(x.get('message'))[:300]))
    print('%s %s: evaluations=%d distinct_nontrivial=%d violations=%d%s%s wall=%.1fs' % (
        prop, tier, cov['evaluations'], cov['distinct_nontrivial'], len(viol), (' inconclusive=%d' % len(inconc)) if inconc else '',
        (' unreproduced=%d' % len(unrep)) if unrep else '', time.time() - t0))
    return 1 if viol else 0


ASSUME_COMMON = ['the reference model is libstdc++ std::vector<int>/std::set<int>; instrumented element, allocator, iterator and comparator types '
                 'observe the library only through its public API', 'g++ 12 AddressSanitizer/UBSan report memory errors and undefined behaviour',
                 'held on everything explored: generated-input search does not establish absence']


def check_C01(tier, seed, t0):
    cases, maxlen = budget(tier, (20000, 60), (400000, 80))
    parts = [interp_part('C01', 'vector_histories', vec_jobs([n for n, _ in C.VEC_CONFIGS], cases, maxlen) + vec_jobs(C.VEC_MULTISTD, cases, maxlen, stds=('11', '14', '20')),
                         seed, VEC_RULES['C01'], True)]
    parts += fuzz_parts('C01', tier, seed, ('vec',), True)
    return finish('C01', tier, seed, 'exploration', parts, VEC_RULES['C01'], ASSUME_COMMON, t0)


def check_C02(tier, seed, t0):
    cases, maxlen = budget(tier, (20000, 60), (300000, 80))
    names = C.vec_subset(C.is_tracked)
    jobs = vec_jobs(names, cases, maxlen) + vec_jobs([n for n in C.VEC_MULTISTD if '_i32_' not in n], cases, maxlen, stds=('11', '14', '20'))
    parts = [interp_part('C02', 'vector_histories', jobs, seed, VEC_RULES['C02'], True)]
    fsn = [n for n, _ in C.FS_CONFIGS if '_i32' not in n]
    parts.append(interp_part('C02', 'smallset_histories', ss_jobs([n for n, _ in C.SS_CONFIGS if '_i32' not in n], cases, maxlen), seed,
                             'SmallSet tapes with identity-tracking elements; non-trivial = >=5 mutating ops crossing the N boundary', True))
    parts.append(interp_part('C02', 'flatset_histories', fs_jobs(fsn, cases, maxlen) + fs_jobs(C.FS_MULTISTD, cases, maxlen, stds=('11', '14', '20')), seed,
                             'FlatSet tapes with identity-tracking elements; non-trivial = >=5 mutating ops incl. bulk insert/merge/hint/node/erase-range/hand-over', True))
    parts += fuzz_parts('C02', tier, seed, ('vec', 'fs', 'ss'), True)
    return finish('C02', tier, seed, 'exploration', parts, VEC_RULES['C02'], ASSUME_COMMON, t0)


def check_C05(tier, seed, t0):
    cases, maxlen = budget(tier, (30000, 60), (400000, 80))
    names = C.vec_subset(lambda n: C.is_sv(n) or C.is_fcv(n))
    multi = [n for n in C.VEC_MULTISTD if C.is_sv(n) or C.is_fcv(n)]  # the inline storage layout has separate pre-C++14 code
    parts = [interp_part('C05', 'vector_histories', vec_jobs(names, cases, maxlen) + vec_jobs(multi, cases, maxlen, stds=('11', '14', '20')), seed, VEC_RULES['C05'], False)]
    parts.append(interp_part('C05', 'smallset_histories', ss_jobs([n for n, _ in C.SS_CONFIGS], cases, maxlen), seed,
                             'SmallSet tapes with merges/copies/swaps weighted up; per-set flag "never held more than N" (inherited through copy/move/swap, '
                             'cleared by merging with a set that lost it); oracle: zero allocator requests and zero malloc/new in every op window whose '
                             'operands all carry the flag, elements inside the object; non-trivial = >=4 mutating ops with a merge and no set ever exceeding N', False))
    parts += fuzz_parts('C05', tier, seed, ('vec', 'ss'), False)
    return finish('C05', tier, seed, 'exploration', parts, VEC_RULES['C05'],
                  ASSUME_COMMON + ['malloc/new are counted through __sanitizer_install_malloc_and_free_hooks inside op windows'], t0)


def check_C06(tier, seed, t0):
    cases, maxlen = budget(tier, (20000, 60), (300000, 80))
    names = C.vec_subset(lambda n: not C.is_fcv(n))
    parts = [interp_part('C06', 'vector_histories', vec_jobs(names, cases, maxlen), seed, VEC_RULES['C06'], False)]
    fsn = [n for n, _ in C.FS_CONFIGS if 'fcv24' not in n and 'real' not in n]
    parts.append(interp_part('C06', 'smallset_histories', ss_jobs([n for n, _ in C.SS_CONFIGS if 'real' not in n], cases, maxlen), seed,
                             'SmallSet tapes on ledger allocators (std::set nodes and FlatSet buffers); non-trivial = >=5 mutating ops crossing the N boundary', False))
    parts.append(interp_part('C06', 'flatset_histories', fs_jobs(fsn, cases, maxlen), seed,
                             'FlatSet tapes on ledger allocators; non-trivial = >=5 mutating ops with a vector hand-over (FlatSet(vector&&), operator=(vector&&), steal_vector) or a range longer than 16', False))
    parts.append(enum_part('C06', 'allocator_reallocate_grid', [enum_unit('alloc_c06', 'targets/alloc_c06.cpp')], seed, tier,
                           'amc::allocator<T>::reallocate (real malloc/realloc and over the ledger) for T in {int, TC, TR, NTR}: old capacity 0..12 x new capacity '
                           '1..14 x live count 0..min(old,new): live elements preserved (values, identities, exactly `live` objects alive), block handed back with the '
                           'new count; non-trivial = >=2 live elements and a capacity change', crash_is_violation=True))
    parts.append(enum_part('C06', 'swap2_pairs_allocator_protocol', c13_units(), seed, tier,
                           'the C13 grid of swap2 between every ordered pair of vector flavours (allocator types with and without reallocate, wrapped basic allocator; '
                           'size types of different widths), here for the allocator clauses: every block goes back once, to the allocator type that provided it, with '
                           'the element count it was requested with, whether swap2 returned or threw', crash_is_violation=True, shards=4))
    parts += fuzz_parts('C06', tier, seed, ('vec', 'fs', 'ss'), False)
    return finish('C06', tier, seed, 'exploration', parts, VEC_RULES['C06'], ASSUME_COMMON + ['all allocator instances compare equal'], t0)


def check_C07(tier, seed, t0):
    cases, maxlen = budget(tier, (20000, 60), (300000, 80))
    parts = [interp_part('C07', 'vector_histories', vec_jobs([n for n, _ in C.VEC_CONFIGS], cases, maxlen), seed, VEC_RULES['C07'], False),
             enum_part('C07', 'swap2_pairs_size_le_capacity', [u for u in c13_units() if u.name.endswith(('_int', '_tm'))], seed, tier,
                       'the C13 grid of swap2 between every ordered pair of vector flavours (int and a type with non-noexcept moves), here only for the '
                       'clause size() <= capacity() after the call, whether it returned or threw', crash_is_violation=False, shards=4)]
    fsn = [n for n, _ in C.FS_CONFIGS if 'fcv24' not in n]
    parts.append(interp_part('C07', 'flatset_histories', fs_jobs(fsn, cases, maxlen), seed,
                             'FlatSet tapes: steal_vector() moves out of the set\'s vector - when that vector is heap-backed its buffer is handed over (same data(), no element copied); '
                             'non-trivial = C03 rule', False))
    parts += fuzz_parts('C07', tier, seed, ('vec',), False)
    return finish('C07', tier, seed, 'exploration', parts, VEC_RULES['C07'], ASSUME_COMMON, t0)


VEC_RULES.update({
    'C08': 'histories with limit probes weighted up (fill to the neighbourhood of N / size_type max, then a growing call sized to exceed it by 1..3 '
           'or by 255) and at() probes; non-trivial = a limit error was provoked and verified; distinct = effective trace hash',
    'C10': 'histories with the eight aliasing call forms weighted up; non-trivial = source at/after the insertion point or a call that '
           'reallocates; distinct = effective trace hash',
    'C13': 'histories with same-type swap2 weighted up; non-trivial = swap2 executed among >=3 mutating ops; distinct = effective trace hash',
    'C18': 'random histories on every dynamic vector configuration: whenever a growing operation other than assign changes capacity(), the new '
           'capacity is at least 1.5 times the old one (the inline N for an inline SmallVector) unless limited by size_type - in any state reached '
           'by moves, swaps, shrink_to_fit, failed growth; non-trivial = a capacity growth observed among >= 4 mutating ops; distinct = effective trace hash',
    'C14': 'histories over container types declaring trivially_relocatable with a RELOCATE op (memcpy to fresh storage, poison and free the '
           'source); non-trivial = a relocation followed by >=3 mutating ops on the relocated object; distinct = effective trace hash',
})


C08_GRID_RULE = ('grid at the limit: FixedCapacityVector N in {1,2,3,7,15} sizes N-3..N; 8-bit size_type (uint8 max 255, int8 max 127) vector / inline '
                 'SmallVector<250> / heap SmallVector<4>, sizes max-2..max (max-5..max thorough); uint16 sampled at 65533/65535; 24 growing operations '
                 '(push_back x2, emplace_back, emplace, insert x7, resize x2, assign x3, append x4, reserve, 3 constructors) x positions {begin,middle,end} '
                 '(every position for N<=8) x counts {0..6,127,128,255,256,65535}; at(i) for i in 0..size+3 and the size_type maximum; elements int, TR, NTR; '
                 'oracle: beyond the limit -> documented exception type and contents/size/capacity/data()/live objects/blocks unchanged, otherwise equal to '
                 'std::vector; follow-up ops; non-trivial = result within +-2 of the limit with a non-trivial position or count; distinct = grid point')


def check_C08(tier, seed, t0):
    cases, maxlen = budget(tier, (30000, 50), (300000, 60))
    names = C.vec_subset(C.is_8bit)
    parts = [enum_part('C08', 'exhaustive_grid', [enum_unit('exh_c08', 'targets/exh_c08.cpp'), enum_unit('static_c14', 'targets/static_c14.cpp'), enum_unit('alloc_c06', 'targets/alloc_c06.cpp')], seed, tier, C08_GRID_RULE, shards=12),
             interp_part('C08', 'vector_histories', vec_jobs(names, cases, maxlen), seed, VEC_RULES['C08'], True, crash_class_codes=[44, 32])]
    parts[1].coverage['exhaustive'] = False
    return finish('C08', tier, seed, 'exploration', parts, C08_GRID_RULE + ' || histories: ' + VEC_RULES['C08'], ASSUME_COMMON, t0)


C10_GRID_RULE = ('exhaustive: size 1..6 x position 0..size x source index 0..size-1 x count 0..4 x spare capacity {0,1,count,20} x {push_back, insert, '
                 'insert-n, emplace, emplace_back, resize(n,v), assign(n,v), append(n,v)} with v = v[i] by reference, plus emplace/emplace_back constructed '
                 'from &v[i] x {vector, vector<re,u8>, SmallVector<7>, SmallVector<4> inline and heap, FixedCapacityVector<12>} x {int, TC7, TR, NTR, '
                 'pointer-constructible TR/NTR}; oracle: copy v[i] first then call on std::vector; non-trivial = source at/after the position or the call '
                 'reallocates; distinct = distinct grid point')


def check_C10(tier, seed, t0):
    cases, maxlen = budget(tier, (30000, 50), (300000, 60))
    names = C.vec_subset(lambda n: '_mo_' not in n and not n.endswith('_mo'))
    parts = [enum_part('C10', 'exhaustive_grid', [enum_unit('exh_c10', 'targets/exh_c10.cpp')], seed, tier, C10_GRID_RULE),
             interp_part('C10', 'vector_histories', vec_jobs(names, cases, maxlen), seed, VEC_RULES['C10'], True, crash_class_codes=list(range(36, 44)))]
    parts[1].coverage['exhaustive'] = False
    parts += fuzz_parts('C10', tier, seed, ('vec',), True)
    return finish('C10', tier, seed, 'exploration', parts, C10_GRID_RULE + ' || histories: ' + VEC_RULES['C10'], ASSUME_COMMON, t0)


C13_GRID_RULE = ('every ordered pair of 9 vector flavours (vector<amc,u32>, vector<amc,u8>, vector<std,u16>, SmallVector<3,amc,u32>, SmallVector<6,amc,u16>, '
                 'SmallVector<4,std,u32>, SmallVector<3,amc,u8>, FixedCapacityVector<5>, FixedCapacityVector<10>) x element {int, TR, NTR} x operand recipes {fill, '
                 'reserve+fill, fill+pop (heap with spare), fill+clear (heap emptied)} x sizes {0..7, 9..12, 200, 255, 256, 300}; oracle: exchanged exactly or throws '
                 'with both unchanged; must not throw when each can hold the other; ledgers balanced; follow-up ops and destruction clean; std::terminate = failure; '
                 'non-trivial = both non-empty and one heap-backed or exactly-full inline; distinct = distinct grid point')


def c13_units():
    return [enum_unit('exh_c13_%s' % n, 'targets/exh_c13.cpp', defines={'VF_CAT': str(i), 'VF_TNAME': '"exh_c13_%s"' % n}) for i, n in enumerate(('int', 'tr', 'ntr', 'tm'))]


def c13_std_units():
    """the int and throwing-move categories of the pair grid in the other language standards (swap_sizetype and kNbSlots have pre-C++17 code)"""
    return [enum_unit('exh_c13_%s_cxx%s' % (n, sd), 'targets/exh_c13.cpp', std=sd, defines={'VF_CAT': str(i), 'VF_TNAME': '"exh_c13_%s_cxx%s"' % (n, sd)})
            for sd in ('11', '14', '20') for i, n in ((0, 'int'), (3, 'tm'))]


def check_C13(tier, seed, t0):
    cases, maxlen = budget(tier, (30000, 50), (300000, 60))
    parts = [enum_part('C13', 'exhaustive_pairs', c13_units() + c13_std_units(), seed, tier, C13_GRID_RULE, shards=4),
             interp_part('C13', 'vector_histories_same_type', vec_jobs([n for n, _ in C.VEC_CONFIGS], cases, maxlen), seed, VEC_RULES['C13'], True, crash_class_codes=[26])]
    parts[1].coverage['exhaustive'] = False
    parts += fuzz_parts('C13', tier, seed, ('vec',), True)
    return finish('C13', tier, seed, 'exploration', parts, C13_GRID_RULE + ' || histories: ' + VEC_RULES['C13'], ASSUME_COMMON, t0)


def check_C14(tier, seed, t0):
    cases, maxlen = budget(tier, (30000, 50), (300000, 60))
    names = C.vec_subset(lambda n: n.startswith('vec_') or '_ntr' not in n and '_mo' not in n)
    multi = [n for n in C.VEC_MULTISTD if n in names]  # the storage layout has separate pre-C++14 code
    parts = [interp_part('C14', 'vector_histories', vec_jobs(names, cases, maxlen) + vec_jobs(multi, cases, maxlen, stds=('11', '14', '20')), seed, VEC_RULES['C14'], True, crash_class_codes=[47])]
    fsn = [n for n, _ in C.FS_CONFIGS if 'stdvec' not in n and not ('_ntr' in n and ('sv4' in n or 'fcv24' in n)) and not ('_mo' in n and 'sv4' in n)]
    parts.append(interp_part('C14', 'smallset_histories', ss_jobs([n for n, _ in C.SS_CONFIGS if 'flat' in n and '_ntr' not in n and '_mo' not in n], cases, maxlen), seed,
                             'FlatSet-backed SmallSet tapes with RELOCATE; non-trivial = relocation followed by >=3 mutating ops', True, crash_class_codes=[28]))
    parts.append(interp_part('C14', 'flatset_histories', fs_jobs(fsn, cases, maxlen), seed,
                             'FlatSet tapes with RELOCATE; non-trivial = relocation followed by >=3 mutating ops', True, crash_class_codes=[29]))
    parts.append(enum_part('C14', 'static_trait_table', static_units(), seed, tier,
                           'converse part: 15 element types (incl. std::string, opted-out, nested pairs, 2-byte non-relocatable) x 7 comparators (std::less, trivially copyable with state, '
                           'declared relocatable, self-pointing, std::function, empty non-relocatable x2): the trait of the element/comparator and the claim of vector, SmallVector, '
                           'FixedCapacityVector, FlatSet over vector/SmallVector, SmallSet over FlatSet/std::set against values written down per part'))
    parts += fuzz_parts('C14', tier, seed, ('vec', 'fs', 'ss'), True)
    return finish('C14', tier, seed, 'exploration', parts, VEC_RULES['C14'], ASSUME_COMMON, t0)


FS_RULE = ('random op tapes (31 op codes over a pool of 3 sets + 2 sets of a sibling comparator type, keys from a 32-value domain) against '
           'std::set<int,ModelCmp>; non-trivial = >=5 mutating ops including a bulk insert with duplicates, merge, hinted insert, node '
           're-insert, erase-range or vector hand-over, and lookups of both a present and an absent key; distinct = effective trace hash')


def check_C03(tier, seed, t0):
    cases, maxlen = budget(tier, (30000, 60), (400000, 80))
    parts = [interp_part('C03', 'flatset_histories', fs_jobs([n for n, _ in C.FS_CONFIGS], cases, maxlen) + fs_jobs(C.FS_MULTISTD, cases, maxlen, stds=('11', '14', '20')),
                         seed, FS_RULE, True)]
    parts += fuzz_parts('C03', tier, seed, ('fs',), True)
    return finish('C03', tier, seed, 'exploration', parts, FS_RULE, ASSUME_COMMON, t0)


SS_RULE4 = ('random op tapes (31 op codes over a pool of 3 SmallSets + 2 sets of a sibling type with another N and comparator, keys from a 16-value '
            'domain) against std::set<int,ModelCmp>, contents compared as sets, membership of every key of the domain checked after every op; '
            'non-trivial = >=3 mutating ops and the history crosses the N boundary or merges/compares/assigns sets in different states; distinct = trace hash')
SS_RULE11 = ('the same tapes with erase(pos)/erase(range)/erase-while-iterating loops weighted up; after every op begin()->end() and rbegin()->rend() '
             'must visit exactly the model elements once, returned iterators must equal end() iff they designate nothing; non-trivial = >=3 '
             'mutating ops with the set in large state or changing state inside a call; distinct = trace hash')


BFS_CONFIGS = ['ss_1_less_stdset_i32_std', 'ss_2_greater_flatvec_i32_amc', 'ss_2_stateful_flatvec_ntr_std', 'ss_1_coarse_stdset_tr_std', 'ss_3_less_stdset_ntr_std', 'ss_3_coarse_flatsv_i32_std',
               'ss_3_less_stdset_mo_std', 'ss_2_less_flatvec_mo_amc']
BFS_RULE = ('breadth-first search over the abstract states (content subset of k=N+2 keys, inline|large, content of the harness node handle) of slot 0 for 8 '
            'configurations (N in {1,2,3}, std::set and FlatSet backings, int/TR/NTR/move-only elements) with the other operands empty or prepared (an inline '
            'set, a large set, a sibling of another N and comparator); from the shortest tape of every reachable state every operation of the alphabet is '
            'applied: insert/emplace/erase/find/extract of every key, every hint, erase/extract at every position, every position pair, the erase loop for '
            'every key subset, node insertion with every hint, merge/swap/assign/compare/construct with every other operand in both directions; all '
            'interpreter oracles on; non-trivial/distinct as for the histories; the search is complete for this alphabet and these operand preparations')


def bfs_units(tier='thorough'):
    us = []
    for n in (BFS_CONFIGS if tier == 'thorough' else BFS_CONFIGS[:4]):
        d = dict(C.SS_DEFS[n])
        d['VF_TNAME'] = '"bfs_%s"' % n
        us.append(enum_unit('bfs_' + n, 'targets/exh_c04.cpp', defines=d))
    return us


def check_C04(tier, seed, t0):
    cases, maxlen = budget(tier, (30000, 60), (400000, 80))
    names = [n for n, _ in C.SS_CONFIGS]
    bfs = enum_part('C04', 'exhaustive_state_search', bfs_units(tier), seed, tier, BFS_RULE)
    parts = [bfs, interp_part('C04', 'smallset_histories', ss_jobs(names, cases, maxlen) + ss_jobs(names[:4], cases, maxlen, stds=('20',)), seed, SS_RULE4, True)]
    parts += fuzz_parts('C04', tier, seed, ('ss',), True)
    return finish('C04', tier, seed, 'exploration', parts, SS_RULE4, ASSUME_COMMON, t0)


def check_C11(tier, seed, t0):
    cases, maxlen = budget(tier, (30000, 60), (400000, 80))
    names = [n for n, _ in C.SS_CONFIGS]
    bfs = enum_part('C11', 'exhaustive_state_search', bfs_units(tier), seed, tier, BFS_RULE)
    parts = [bfs, interp_part('C11', 'smallset_histories', ss_jobs(names, cases, maxlen) + ss_jobs(names[:4], cases, maxlen, stds=('20',)), seed, SS_RULE11, True)]
    parts += fuzz_parts('C11', tier, seed, ('ss',), True)
    return finish('C11', tier, seed, 'exploration', parts, SS_RULE11, ASSUME_COMMON, t0)


FAULT_CONFIGS = [
    ('f_vec_ntr_std', C.vec(0, 'ntr', 'u32', 'std')), ('f_vec_tr_re', C.vec(0, 'tr', 'u32', 're')), ('f_vec_tr_amc', C.vec(0, 'tr', 'u32', 'amc')),
    ('f_sv4_ntr_std', C.vec(4, 'ntr', 'u32', 'std')), ('f_sv4_tr_re', C.vec(4, 'tr', 'u32', 're')), ('f_sv2_ntr_amc', C.vec(2, 'ntr', 'u16', 'amc')),
    ('f_sv8_tr_u8_std', C.vec(8, 'tr', 'u8', 'std')), ('f_fcv12_ntr', C.fcv(12, 'ntr')), ('f_fcv12_tr', C.fcv(12, 'tr')),
    ('f_vec_co_std', C.vec(0, 'co', 'u32', 'std')), ('f_sv4_co_amc', C.vec(4, 'co', 'u32', 'amc')), ('f_fcv12_co', C.fcv(12, 'co')),
]


def fault_unit(name, std='17'):
    d = dict(NONSTD)
    d['VF_V'] = dict(FAULT_CONFIGS)[name]
    uname = name if std == '17' else '%s_cxx%s' % (name, std)
    d['VF_NAME'] = '"%s"' % uname
    return D.Unit(uname, 'targets/fault_main.cpp', d, std=std, kind='asan', engine=True)


FAULT_MULTISTD = [('f_vec_ntr_std', '11'), ('f_sv4_ntr_std', '14'), ('f_fcv12_ntr', '14'), ('f_sv4_tr_re', '20')]


FAULT_RULE = ('12 configurations: vector / SmallVector / FixedCapacityVector x element {TR, NTR (noexcept moves, throwing copies), CO (copy-only: every move is a '
              'copy that can throw; basic guarantee only)}; scenario = (operation, initial size, position, count, range source, spare/tight capacity, inline/heap); a dry run counts the fault points '
              'P (element value/default/copy constructions, copy assignments, allocator requests) inside the call, then the scenario is rebuilt and re-run '
              'P times with the k-th point throwing; evaluations = scenarios, fault_pairs = (scenario,k) runs; non-trivial = scenario in which '
              'a throw happens after the operation already moved/constructed something; distinct = distinct (op,size,pos,count,kind,capacity,storage,P)')


def check_C09(tier, seed, t0):
    names = [n for n, _ in FAULT_CONFIGS]
    jobs = [{'unit': fault_unit(n), 'cases': 1, 'maxlen': 1, 'extra_args': ['--exhaustive']} for n in names]
    jobs += [{'unit': fault_unit(n, sd), 'cases': 1, 'maxlen': 1, 'extra_args': ['--exhaustive']} for n, sd in FAULT_MULTISTD]  # the pre-C++17 memory algorithms
    part1 = interp_part('C09', 'exhaustive_grid', jobs, seed, FAULT_RULE + '; complete grid: 25 ops x sizes {0,1,2,3,5} x positions {begin,middle,end} x counts 0..6 '
                        'x {T*,list,single-pass} x {spare,tight} x {inline,heap}', True)
    part1.coverage['exhaustive'] = True
    cases = budget(tier, 4000, 60000)
    jobs2 = [{'unit': fault_unit(n), 'cases': cases, 'maxlen': 3} for n in names]
    part2 = interp_part('C09', 'random_scenarios', jobs2, seed, FAULT_RULE + '; rapidcheck-generated scenarios with sizes up to 16 and counts up to 13', True)
    part2.coverage['exhaustive'] = False
    hc, hl = budget(tier, (20000, 50), (200000, 60))
    part3 = interp_part('C09', 'histories_with_allocation_failures', vec_jobs(C.vec_subset(C.is_ledger), hc, hl), seed,
                        'vector histories in which growing calls (reserve, emplace_back, emplace, resize, append, shrink_to_fit) run with the first allocator '
                        'request throwing bad_alloc: the call must fail cleanly and the history continues on the same container; non-trivial = C01 rule', True, crash_class_codes=[49])
    part3.coverage['exhaustive'] = False
    fsn = [n for n, _ in C.FS_CONFIGS if ('_tr' in n or '_ntr' in n) and 'real' not in n and 'stdvec' not in n]
    part4 = interp_part('C09', 'flatset_histories_with_faults', fs_jobs(fsn, hc, hl), seed,
                        'FlatSet histories in which insert/emplace/hinted insert/range insert/initializer-list insert/copy assignment/merge run with the k-th fault '
                        'point (k = 0..6: element construction, copy, copy assignment, allocator request) throwing; basic guarantee: every visible element alive, '
                        'set still strictly increasing and duplicate-free, live values == visible values; strong for single-element insertion and for the source; '
                        'the history continues on the same sets; non-trivial = >=3 mutating ops with a fault that fired', True, crash_class_codes=[31])
    part4.coverage['exhaustive'] = False
    ssn = [n for n, _ in C.SS_CONFIGS if ('_tr' in n or '_ntr' in n) and 'real' not in n]
    part5 = interp_part('C09', 'smallset_histories_with_faults', ss_jobs(ssn, hc, hl), seed,
                        'SmallSet histories in which insert/emplace/range insert/initializer-list insert/copy assignment/merge run with the k-th fault point '
                        '(k = 0..7) throwing, across the inline/large transition: every visible element alive, no equivalent elements twice, size() equals the '
                        'number of elements visited, live values == visible values (nothing dropped from view), contents unchanged for single insertions; '
                        'non-trivial = >=3 mutating ops with a fault that fired', True, crash_class_codes=[30])
    part5.coverage['exhaustive'] = False
    return finish('C09', tier, seed, 'fault_enumeration', [part1, part2, part3, part4, part5], FAULT_RULE,
                  ASSUME_COMMON + ['single faults only; element moves are noexcept (throwing moves are not demanded)', 'strong guarantee is not demanded for single-pass input ranges'], t0)


def enum_unit(name, src, std='17', kind='asan', extra=None, defines=None, compiler=None):
    d = dict(NONSTD)
    d.update(defines or {})
    return D.Unit(name, src, d, std=std, kind=kind, engine=False, extra=extra, compiler=compiler)


def noexcept_units():
    src = 'targets/noexcept_c17.cpp'
    return [enum_unit('noexcept_c17', src), enum_unit('noexcept_c17_cxx11', src, std='11', defines={'VF_TNAME': '"noexcept_c17_cxx11"'}),
            enum_unit('noexcept_c17_cxx20', src, std='20', defines={'VF_TNAME': '"noexcept_c17_cxx20"'}),
            enum_unit('noexcept_c17_clang', src, compiler='clang++', defines={'VF_TNAME': '"noexcept_c17_clang"'})]


def static_units():
    """the trait tables of C14 / C17: g++ 12 and, as a second opinion on every static_assert-like fact, clang++ 14"""
    return [enum_unit('static_c14', 'targets/static_c14.cpp'), enum_unit('alloc_c06', 'targets/alloc_c06.cpp'),
            enum_unit('static_c14_clang', 'targets/static_c14.cpp', compiler='clang++'), enum_unit('static_c14_clang20', 'targets/static_c14.cpp', std='20', compiler='clang++')]


def enum_part(prop, name, units, seed, tier, rule, crash_is_violation=True, exhaustive=True, extra_args=None, shards=1):
    jobs = [{'unit': u, 'enum': True, 'cases': 0, 'maxlen': 0, 'label': ('#%d' % i) if shards > 1 else '',
             'extra_args': ['--tier', tier] + (['--shard', '%d/%d' % (i, shards)] if shards > 1 else []) + list(extra_args or [])} for u in units for i in range(shards)]
    res = IC.run_jobs(prop, jobs, seed, crash_is_violation)
    cov = IC.merge_coverage(res, rule)
    cov['exhaustive'] = exhaustive
    return Part(name, cov, res.violations, res.wall)


C12_RULE = ('complete enumeration: all subsets of k odd keys (k=8 quick, k=11 thorough) as contents x every hint in [begin,end] x every value 0..2k x '
            '{insert(hint,const&), insert(hint,&&), emplace_hint(key), emplace_hint(element&&)} x 11 comparator/vector/element configurations (stateful comparator in 6 states); '
            'oracle: same sequence as insert(value) on a copy and as std::set, returned iterator designates the equivalent element, size grows by '
            '[absent]; non-trivial = hint is not the lower bound or the value is present; distinct = distinct grid point')


def check_C12(tier, seed, t0):
    parts = [enum_part('C12', 'exhaustive_grid', [enum_unit('exh_c12', 'targets/exh_c12.cpp')], seed, tier, C12_RULE, shards=8)]
    cases, maxlen = budget(tier, (20000, 50), (200000, 60))
    p2 = interp_part('C12', 'flatset_histories_hinted', fs_jobs([n for n, _ in C.FS_CONFIGS], cases, maxlen), seed,
                     'FlatSet tapes with hinted insertions (incl. node handles with hints) weighted up, on sets reached by arbitrary histories; non-trivial as C03', True,
                     crash_class_codes=[2, 3, 7, 11])
    p2.coverage['exhaustive'] = False
    parts.append(p2)
    return finish('C12', tier, seed, 'exploration', parts, C12_RULE, ASSUME_COMMON, t0)


C18_RULE = ('13 vector/SmallVector configurations (TC/TR/NTR/copy-only elements, allocators with and without reallocate, 8/16/32/64-bit size types): appending n '
            'elements one by one for every n in 1..600 (1..3000 thorough), seed-derived larger n and the tier maximum (50k quick / 2M thorough), from start states '
            '{empty, inline k<N, after reserve(r), after shrink_to_fit}; oracle: capacity changes <= 2*ceil(log2 n)+4, relocated elements <= 4n+16, '
            'growth factor >= 1.5 unless clamped by size_type, allocator requests == capacity changes; reserve(r)/shrink_to_fit grid k=0..12 x r=0..40; '
            'bulk growing operations (append(n[,v]), insert(pos,n,v), insert(pos,range), insert(pos,ilist), resize(n[,v]), append(range)) from every '
            'inline fill with counts around N and 1.5N: new capacity >= 1.5 x old and one allocator request; shrink_to_fit on a SmallVector whose heap '
            'buffer was taken over from an amc::vector (construction from vector&&, swap2) comes back inline when size <= N; '
            'non-trivial = n >= 16 with >= 3 reallocations, or a growing reserve; distinct = distinct grid point')
C19_RULE = ('FlatSet sizes n=0..400, 511..4097 and seed-derived n < 2000 (thorough: 0..2000, ..65537, seed-derived n < 32000), every key rank present and absent: comparator calls of find/contains/count/'
            'lower_bound/upper_bound/equal_range and of the position search of insert/emplace/erase(key) <= 2*ceil(log2(n+1))+4; insertion with every '
            'correct hint (lower bound; upper bound for present keys) <= 8 calls; heterogeneous keys equivalent to 4 / 64 / all elements (transparent comparator) '
            'within the same bound and count() equal to the run length; SmallSet inline lookups and the position searches of erase(key)/insert/emplace '
            '<= 2N+2 for N in {1,2,4,8,16}, every fill, keys visited in ascending and descending order; SmallSet over FlatSet in its large state within the '
            'logarithmic bound; inline SmallSets with a transparent comparator and heterogeneous keys equivalent to 2 / 4 / all elements; SmallSets of char / unsigned char / uint16_t / int / TR filled beyond N (N+1..N+45): whenever the elements still live inside the '
            'object the 2N+2 bound applies, and insertion with a correct hint in the large state (insert(hint, T&&), insert(hint, const T&), emplace_hint; '
            'std::set and FlatSet backing) costs <= 8 calls; '
            'the grid runs in a build with assertions and in a -DNDEBUG build; non-trivial = n >= 64 (FlatSet) or fill >= 2 (SmallSet); distinct = distinct (build, configuration, n); keys_probed counts the lookups')


def check_C18(tier, seed, t0):
    u = enum_unit('growth_c18', 'targets/growth_c18.cpp', kind='plain') if tier == 'thorough' else enum_unit('growth_c18_asan', 'targets/growth_c18.cpp', kind='asan')
    parts = [enum_part('C18', 'growth_grid', [u], seed, tier, C18_RULE, crash_is_violation=False, exhaustive=False, shards=8 if tier == 'quick' else 16)]
    cases, maxlen = budget(tier, (8000, 60), (150000, 80))
    dyn = [n for n, _ in C.VEC_CONFIGS if not n.startswith('fcv_')]
    parts.append(interp_part('C18', 'vector_histories', vec_jobs(dyn, cases, maxlen), seed, VEC_RULES['C18'], False))
    return finish('C18', tier, seed, 'exploration', parts, C18_RULE, ASSUME_COMMON, t0)


def check_C19(tier, seed, t0):
    parts = [enum_part('C19', 'lookup_grid', [enum_unit('lookup_c19', 'targets/lookup_c19.cpp', kind='plain'),
                                            enum_unit('lookup_c19_ndebug', 'targets/lookup_c19.cpp', kind='plain', defines={'NDEBUG': None, 'VF_TNAME': '"lookup_c19_ndebug"'})],
                       seed, tier, C19_RULE, crash_is_violation=False, exhaustive=False,
                       shards=8 if tier == 'quick' else 16)]
    return finish('C19', tier, seed, 'exploration', parts, C19_RULE, ASSUME_COMMON + ['comparator calls are counted by a global counter inside the comparator (key_comp() copies share it)'], t0)


C15_RULE = ('every algorithm exported by memory.hpp (construct_at, destroy/_at/_n, uninitialized_copy/_n, uninitialized_move/_n, '
            'uninitialized_default/value_construct/_n, uninitialized_relocate/_n, relocate_at) x length 0..8 exhaustively plus seed-derived longer '
            'lengths x source {T*, const T*, deque, list, forward_list, single-pass (copy family), move_iterator} x destination {T*, wrapped forward '
            'iterator over raw storage} x element {int, TC7, TR, NTR, ThrM (throwing move), move-only with throwing move, throwing move with noexcept copy} x every '
            'throw index, built as C++11/14/17/20; construct_at on C arrays; source and destination of different value types (uint8->bool, int->float, ...: values '
            'converted, never raw bytes); construct_at(p, arg of type T) picks the same constructor overload as ::new (p) T(arg); value-initialisation zeroes the scalar members of a '
            'non-trivial type with an implicit default constructor; oracle: '
            'reference semantics (values, returned iterators/pairs as distances, source advance), on a throw nothing created survives, relocate sources '
            'stay alive, canaries around the destination intact; non-trivial = len >= 2 and (non-pointer iterator or non-trivial value or interior '
            'throw index); distinct = distinct grid point per language standard')


def c15_units():
    return [enum_unit('algo_c15_cxx%s' % s, 'targets/algo_c15.cpp', std=s, defines={'VF_TNAME': '"algo_c15_cxx%s"' % s}) for s in ('11', '14', '17', '20')]


def check_C15(tier, seed, t0):
    parts = [enum_part('C15', 'algorithm_grid', c15_units(), seed, tier, C15_RULE, crash_is_violation=True, exhaustive=True)]
    return finish('C15', tier, seed, 'fault_enumeration', parts, C15_RULE, ASSUME_COMMON + ['C-array element types are not exercised'], t0)


C17_RULE = ('matrix of element types Elem<Size,Align,Kind> (25 size/alignment pairs x {trivial, TR-declared non-trivial, non-TR, throwing-move, opted-out} '
            '+ std::pair combinations) x N in a fixed list (0..10, 15-17, 31-33, 40, 255, 256, 65535, 65536) plus seed-derived N, for C++11/14/17/20; the '
            'compiler evaluates sizeof, alignof, is_trivially_relocatable, triviality, size_type, noexcept(move/assign/swap) and the trivially_relocatable '
            'typedefs of vector/SmallVector/FixedCapacityVector/FlatSet/SmallSet; an independent Python formula derived from the statement gives the '
            'expected values; non-trivial = size not a power of two, alignment != size, pair type, N at a size_type boundary or N*sizeof(T) within one '
            'element of sizeof(void*); distinct = distinct (type, N, standard)')


def check_C17(tier, seed, t0, only=None):
    from . import c17
    r = c17.run(tier, seed, only_rows=only)
    viol = []
    if r['errors']:
        print('BUILD ERROR in generated C17 translation unit:\n' + r['errors'][0])
        return 2
    seen = set()
    rd = IC.replays_dir()
    for rid, msg in r['bad']:
        if rid in seen:
            continue
        seen.add(rid)
        pth = rd / ('C17-%s.tape' % D.sha(rid)[:10])
        pth.write_text('check=C17 config=c17_matrix  # %s\ncase %s\n' % (msg, rid))
        viol.append((str(pth), msg))
        if len(viol) >= 8:
            break
    nstd = len(r['stds'])
    nt = sum(1 for (t, n) in r['rows'] if c17.nontrivial(t, n))
    samples = ['%s|N=%d' % (c17.tid(t), n) for (t, n) in r['rows'][::max(1, len(r['rows']) // 8)]][:8]
    cov = {'evaluations': r['evaluated'], 'distinct_nontrivial': nt * nstd if not r['bad'] else nt * nstd, 'rule': C17_RULE, 'samples': samples,
           'rows_per_standard': len(r['rows']), 'standards': r['stds'], 'mismatches': len(r['bad']), 'exhaustive': False}
    part = Part('static_matrix', cov, viol, r['wall'])
    part2 = enum_part('C17', 'comparator_and_pair_trait_table', static_units(), seed, tier,
                      'trait table over element types x comparator types (see C14 static part): each container typedef is the conjunction of its parts')
    part2.coverage['exhaustive'] = False
    part3 = enum_part('C17', 'noexcept_runs_no_throwing_element_operation', noexcept_units(), seed, tier,
                      'dynamic side of the noexcept clauses: 16 element types (TR-declared or not x move constructor / move assignment / ADL swap noexcept or '
                      'potentially throwing) x {FixedCapacityVector<E,4>, <E,1>, SmallVector<E,3>, <E,1>, vector<E>} x every size pair (inline and heap) x '
                      '{a.swap(b), ADL swap, move construction, move assignment}; oracle: an operation the container declares noexcept executes zero element '
                      'operations that the element declares potentially throwing (and the contents are exchanged / moved); non-trivial = the element has a '
                      'throwing operation or declares trivially_relocatable; built as C++11, C++17 and C++20 with g++ and C++17 with clang++')
    return finish('C17', tier, seed, 'exploration', [part, part2, part3], C17_RULE,
                  ['the evaluators are g++ 12 and clang++ 14 on x86-64 (sizeof(void*) == 8); the converse of the noexcept implications is demanded only where a '
                   'noexcept operation would otherwise run (static matrix) or did run (dynamic grid) a potentially throwing element operation'], t0)


C16_RULE = ('tapes generated (rapidcheck, seed-derived) by the C01/C03/C04 generators for 10 vector (odd element sizes 3 and 7 included), 3 FlatSet and 2 SmallSet configurations, in two corpora: '
            'portable (only operations every configuration offers; replayed by every build) and full (everything C++17/20 extras builds offer); each build '
            '= {c++11,14,17,20} x {AMC_NONSTD_FEATURES on,off} x {NDEBUG, assertions} x {-O0,-O2} without sanitizer (quick: 8-build pairwise covering '
            'subset, thorough: all 32); oracle: byte-identical transcripts (effective op, contents, size, capacity after every op) and no model violation '
            'in any build; absence of the extras in pedantic builds is probed by SFINAE detection, of smallset.hpp before C++17 by a failing compile; the same probe prints compile-time facts (sizeof, alignof, noexcept of move/swap, trivially_relocatable, '
            'trivially destructible for 14 element types x 11 container types) that must be identical in every build, and the bytes stored by converting range operations (20 source/destination type pairs x 4 flavours x constructor/assign/insert x pointer/list sources) that must equal element-wise conversion and be identical in every build; '
            'the standard interface (23 vector members, 12 set members) is callable in every build; the C13 swap2 pair grid for int elements gives the same verdicts as C++11/14/17/20; '
            'non-trivial = tape with a boundary feature (C01/C03/C04 rule) replayed by builds of >= 2 language levels; distinct = distinct (config, transcript)')


def check_C16(tier, seed, t0, only=None):
    from . import c16
    r = c16.run(tier, seed, only=only)
    if 'error' in r:
        print('ERROR ' + r['error'])
        return 2
    viol = []
    rd = IC.replays_dir()
    seen = set()
    for m in r['mismatches']:
        key = (m['config'], m['level'], m['tape'])
        if key in seen or len(viol) >= 8:
            continue
        seen.add(key)
        pth = rd / ('C16-%s-%s.tape' % (m['config'], D.sha(str(key), m.get('tape_text', ''))[:10]))
        pth.write_text('check=C16 config=%s level=%d  # %s: %s\n%s\n' % (m['config'], m['level'], m['build'], m['msg'].replace('\n', ' '), m.get('tape_text', '').strip()))
        viol.append((str(pth), '%s [%s] %s' % (m['config'], m['build'], m['msg'])))
    for i, msg in enumerate(r['absent_msgs']):
        pth = rd / ('C16-absence-%d.tape' % i)
        pth.write_text('check=C16 config=absence  # %s\n' % msg)
        viol.append((str(pth), msg))
    st = r['stats']
    cov = {'evaluations': st['tapes'], 'distinct_nontrivial': st['distinct_nontrivial'], 'rule': C16_RULE, 'samples': r['samples'] or [{'note': 'no sample'}],
           'transcripts_compared': st['transcripts'], 'ops_replayed_per_build': st['ops'], 'builds': r['builds'], 'groups': r['groups'],
           'absence_table': r['absence_table'], 'exhaustive': False}
    if only is not None:
        # replay of one tape: differential verdict only (no evidence, no exploration minimum)
        for path, msg in viol:
            print('VIOLATION property=C16 replay=%s' % path)
            print('  ' + msg)
        if not viol:
            print('VF-REPLAY pass prop=C16 config=%s (%d builds agree)' % (only[0], len(r['builds'])))
        return 1 if viol else 0
    part = Part('differential_transcripts', cov, viol, r['wall'])
    parts = [part]
    if only is None:
        # the swap2 pair grid (int elements) is one more fixed program: it must give the same verdicts in every language standard
        units = [u for u in c13_units() if u.name == 'exh_c13_int'] + [u for u in c13_std_units() if '_int_' in u.name]
        p2 = enum_part('C13', 'swap2_pair_grid_per_language_standard', units, seed, tier,
                       'the C13 swap2 pair grid for int elements built as C++11/14/17/20: a grid point that fails in one standard only is a difference between '
                       'configurations; non-trivial = C13 rule', crash_is_violation=True, shards=2)
        p2.coverage['exhaustive'] = False
        failing = set()
        for (path, msg) in p2.violations:
            m = re.search(r'exh_c13_int(_cxx\d+)?', path)
            failing.add(m.group(0) if m else path)
        if p2.violations and len(failing) >= 4:
            p2.violations = []  # fails in every standard alike: a C13 matter, not a difference between configurations
        parts.append(p2)
    return finish('C16', tier, seed, 'exploration', parts, C16_RULE,
                  ['transcripts never contain addresses; layout is not compared', 'the builds use g++ 12 only'], t0)


C20_RULE = ('rapidcheck-generated programs: container type (9: vector, SmallVector inline/heap, FixedCapacityVector, FlatSet x2, SmallSet inline/large over '
            'std::set and FlatSet) x state x 2..8 reader threads each running a generated list of const operations (size, iteration, [], at, find/'
            'contains/count/bounds, ==, <, copy construction) for 6 rounds after a common start flag with generated spin offsets x 0..2 writer threads '
            'each owning two container objects nobody else touches and running push_back / emplace and insert in the middle / erase / assign / swap / resize / '
            'failing at() / comparisons / insertion from a single-pass range (sets: insert, emplace, hinted insert, range insert, erase, swap, comparisons) on them; the shared '
            'objects are built (FlatSets in half of the cases adopted from an unsorted vector) and then left untouched until the threads start - the expected results '
            'come from twins; three quarters of the processes run the C++17 build, one quarter the C++20 build; built with -fsanitize=thread; oracle: no ThreadSanitizer report and every reader result equals the '
            'precomputed single-threaded result; non-trivial = at least two readers execute a common operation kind on the shared container; '
            'distinct = distinct (container, state, per-thread programs)')


def race_unit(std='17'):
    name = 'race_c20' if std == '17' else 'race_c20_cxx%s' % std
    d = dict(NONSTD)
    d['VF_RACE_NAME'] = '"%s"' % name
    # -fno-builtin: at -O1 g++ expands memcpy / memmove inline without ThreadSanitizer instrumentation and a race on bytes copied that way
    # goes unreported (seen with seeded change C20e-1); as library calls they go through the interceptors
    return D.Unit(name, 'targets/race_c20.cpp', d, std=std, kind='tsan', engine=True, extra=['-fno-builtin'])


def check_C20(tier, seed, t0):
    cases, procs = budget(tier, (3000, 8), (40000, 12))
    # a quarter of the processes run the C++20 build (three-way comparison operators have their own code there)
    jobs = [{'unit': race_unit('20' if i % 4 == 3 else '17'), 'cases': cases, 'maxlen': 30, 'label': '#%d' % i} for i in range(procs)]
    part = interp_part('C20', 'tsan_reader_programs', jobs, seed, C20_RULE, True)
    return finish('C20', tier, seed, 'exploration', [part], C20_RULE,
                  ['schedules are sampled, not owned: ThreadSanitizer detects unsynchronised conflicting accesses by happens-before analysis within its history window',
                   'elements are plain int and a malloc-owning type; the global ledgers are not used in this target'], t0)


CHECKS = {'C03': check_C03, 'C09': check_C09, 'C20': check_C20, 'C16': check_C16, 'C17': check_C17, 'C15': check_C15, 'C18': check_C18, 'C19': check_C19, 'C12': check_C12, 'C04': check_C04, 'C11': check_C11, 'C08': check_C08, 'C10': check_C10, 'C13': check_C13, 'C14': check_C14, 'C01': check_C01, 'C02': check_C02, 'C05': check_C05, 'C06': check_C06, 'C07': check_C07}


def all_units():
    us = [vec_unit(n) for n, _ in C.VEC_CONFIGS]
    for s in ('11', '14', '20'):
        us += [vec_unit(n, s) for n in C.VEC_MULTISTD]
    us += [fs_unit(n) for n, _ in C.FS_CONFIGS]
    us += [fault_unit(n) for n, _ in FAULT_CONFIGS] + [fault_unit(n, sd) for n, sd in FAULT_MULTISTD]
    us += c15_units() + [race_unit(), race_unit('20')] + c13_units() + c13_std_units() + bfs_units() + [enum_unit('exh_c10', 'targets/exh_c10.cpp'), enum_unit('exh_c08', 'targets/exh_c08.cpp'), enum_unit('static_c14', 'targets/static_c14.cpp'), enum_unit('alloc_c06', 'targets/alloc_c06.cpp')] + static_units()[2:] + noexcept_units()
    from . import c16
    us += [c16.unit(cfg, b) for cfg in c16.VEC + c16.FS + c16.SS for b in c16.QUICK_BUILDS if not (cfg in c16.SS and b[0] in ('11', '14'))]
    us += [enum_unit('exh_c12', 'targets/exh_c12.cpp'), enum_unit('growth_c18', 'targets/growth_c18.cpp', kind='plain'),
           enum_unit('growth_c18_asan', 'targets/growth_c18.cpp', kind='asan'), enum_unit('lookup_c19', 'targets/lookup_c19.cpp', kind='plain'),
           enum_unit('lookup_c19_ndebug', 'targets/lookup_c19.cpp', kind='plain', defines={'NDEBUG': None, 'VF_TNAME': '"lookup_c19_ndebug"'})]
    us += [ss_unit(n) for n, _ in C.SS_CONFIGS] + [ss_unit(n, '20') for n, _ in C.SS_CONFIGS[:4]]
    for s in ('11', '14', '20'):
        us += [fs_unit(n, s) for n in C.FS_MULTISTD]
    return us


def replay(prop, path):
    """./check Cxx --replay file: rebuild what is needed, run the case once, exit 1 if it still fails"""
    D.NO_EVIDENCE = True
    lines = open(path).read().splitlines()
    kv = dict(x.split('=', 1) for x in lines[0].split('#')[0].split() if '=' in x) if lines else {}
    cfg = kv.get('config', '')
    unit = None
    for u in all_units():
        if u.name == cfg:
            unit = u
    if prop == 'C16' and cfg.startswith('exh_c13') and unit is not None:
        exe = D.ensure_built([unit])[unit.name]
        rc, out, err = IC.replay_once(exe, 'C13', path)  # the swap2 grid point is judged by its own (C13) oracle in that build
        print(out.strip())
        if rc != 0:
            print('VIOLATION property=C16 replay=%s' % path)
        return 1 if rc != 0 else 0
    if prop == 'C16':
        if cfg == 'absence':
            return check_C16('quick', 1, time.time())
        ops = [l for l in lines[1:] if l.strip() and l.strip()[0].isdigit()]
        return check_C16('quick', 1, time.time(), only=(cfg, int(kv.get('level', 2)), ops))
    if prop == 'C17' and unit is None:
        from . import c17
        keys = [l[5:].strip() for l in lines if l.startswith('case ')]
        return check_C17('quick', 1, time.time(), only=[c17.parse_rid(k) for k in keys])
    if unit is None:
        from . import fuzz
        print('replay: unknown config %r' % cfg)
        return 2
    exe = D.ensure_built([unit])[unit.name]
    rc, out, err = IC.replay_once(exe, prop, path)
    print(out.strip())
    if rc not in (0, 1):
        print(IC.crash_signature(err))
        print('VIOLATION property=%s replay=%s' % (prop, path))
        return 1
    if rc == 1:
        print('VIOLATION property=%s replay=%s' % (prop, path))
    return rc
