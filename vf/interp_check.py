# interp_check.py - runs tape interpreters for one property, handles failures/crashes, merges stats.
import json
import os
import shutil
import time
from pathlib import Path

from . import driver as D


class Result:
    def __init__(self):
        self.violations = []       # (replay_path, message)
        self.stats = []            # per job stats dicts
        self.crashed_elsewhere = 0
        self.unreproduced = []
        self.inconclusive = []
        self.notes = []


def scratch_dir(prop):
    d = D.BUILD / 'run' / ('%s_%d' % (prop, os.getpid()))
    if d.exists():
        shutil.rmtree(d, ignore_errors=True)
    d.mkdir(parents=True)
    return d


def replays_dir():
    d = D.BUILD / 'replays'
    d.mkdir(parents=True, exist_ok=True)
    return d


def replay_once(exe, prop, tape, timeout=120):
    rc, out, err, _ = D.run_proc([exe, '--prop', prop, '--replay', tape], timeout=timeout)
    return rc, out, err


def classify_rc(rc):
    if rc == 0:
        return 'pass'
    if rc == 1:
        return 'fail'
    if rc in (-999, -9, 137):
        return 'timeout'  # time cap, or killed from outside (memory / time limit of the environment): load noise, inconclusive
    if rc == 3:
        return 'harness'
    return 'crash'


def crash_signature(err):
    for l in err.splitlines():
        if 'ERROR: AddressSanitizer' in l or 'ThreadSanitizer' in l or 'runtime error:' in l or 'Assertion' in l or 'terminate called' in l:
            return l.strip()[:300]
    tail = [l for l in err.splitlines() if l.strip()]
    return tail[-1][:300] if tail else 'process died without message'


def confirm_and_store(res, exe, prop, cfg, tape_path, msg, want='fail', sticky_codes=None):
    """replay 3x in fresh processes; all must show the failure class 'want'"""
    ok = 0
    last_err = ''
    for _ in range(3):
        rc, out, err = replay_once(exe, prop, tape_path)
        last_err = err
        if classify_rc(rc) == want:
            ok += 1
    if ok == 3:
        header, ops = D.read_tape(tape_path)
        ops += [l for l in Path(tape_path).read_text().splitlines() if l.startswith('case ')]
        h = D.sha(prop, cfg, '\n'.join(ops))[:10]
        dst = replays_dir() / ('%s-%s-%s.tape' % (prop, cfg, h))
        if not header:
            header = 'check=%s config=%s' % (prop, cfg)
        if msg and '#' not in header:
            header += '  # ' + msg.replace('\n', ' ')[:300]
        D.write_tape(dst, header, ops)
        res.violations.append((str(dst), msg))
        return True
    res.unreproduced.append({'config': cfg, 'message': msg, 'reproduced': '%d/3' % ok})
    return False


def enum_crash_tape(exe, prop, cfg, crashfile, workdir, seed=1, tier='quick'):
    """enumerator targets store the textual key of the running case in the crash area"""
    import struct
    try:
        raw = Path(crashfile).read_bytes()
    except OSError:
        return None, None
    if len(raw) < 96:
        return None, None
    magic, ln, running, _op = struct.unpack_from('<IIII', raw, 0)
    if magic != 0x56464352 or running != 2:
        return None, None
    key = raw[88:88 + ln].decode(errors='replace')
    tape = workdir / ('crash_%s.tape' % cfg)
    tape.write_text('check=%s config=%s seed=%s tier=%s\ncase %s\n' % (prop, cfg, seed, tier, key))
    rc, out, err = replay_once(exe, prop, tape)
    if classify_rc(rc) != 'crash':
        return tape, None
    sig = crash_signature(err)
    tape.write_text('check=%s config=%s seed=%s tier=%s  # %s\ncase %s\n' % (prop, cfg, seed, tier, sig, key))
    return tape, sig


def minimise_crash(exe, prop, cfg, crashfile, workdir, budget=250):
    rc, out, err, _ = D.run_proc([exe, '--prop', prop, '--dump-crash', crashfile], timeout=60)
    if rc != 0 or not out.strip():
        return None, None
    lines = out.splitlines()
    header, ops = lines[0], [l for l in lines[1:] if l.strip()]
    op_index = None
    for tok in header.split():
        if tok.startswith('op_index='):
            op_index = int(tok.split('=')[1])
    if op_index is not None and op_index + 1 < len(ops):
        ops = ops[:op_index + 1]
    tape = workdir / ('crash_%s.tape' % cfg)
    hdr = 'check=%s config=%s' % (prop, cfg)
    D.write_tape(tape, hdr, ops)
    rc, out, err = replay_once(exe, prop, tape)
    if classify_rc(rc) != 'crash':
        return tape, None   # does not reproduce from the saved tape
    sig = crash_signature(err)
    count = [0]

    def still(cand):
        if count[0] >= budget:
            return False
        count[0] += 1
        t = workdir / ('cand_%s.tape' % cfg)
        D.write_tape(t, hdr, cand)
        r, _, _ = replay_once(exe, prop, t)
        return classify_rc(r) == 'crash'

    ops = D.ddmin(ops, still)
    D.write_tape(tape, hdr + '  # ' + sig, ops)
    return tape, sig


def run_jobs(prop, jobs, seed, crash_is_violation, crash_class_codes=None, max_retries=2):
    """jobs: list of dict(unit, cases, maxlen, extra_args). Returns Result."""
    res = Result()
    work = scratch_dir(prop)
    exes = D.ensure_built([j['unit'] for j in jobs], tolerate=True)
    for j in jobs:
        if j['unit'].name not in exes:
            res.inconclusive.append('%s: does not compile against this tree' % j['unit'].name)
    jobs = [j for j in jobs if j['unit'].name in exes]

    def one(job):
        u = job['unit']
        exe = exes[u.name]
        out_all = []
        for attempt in range(max_retries + 1):
            s = D.derive_seed(seed, prop, u.name, job.get('label', ''), attempt)
            tag = '%s%s_%d' % (u.name, job.get('label', ''), attempt)
            stats, crash, rout = work / (tag + '.json'), work / (tag + '.crash'), work / (tag + '.tape')
            if job.get('enum'):
                cmd = [exe, '--prop', prop, '--seed', s, '--stats', stats, '--crash', crash, '--replay-out', rout] + list(job.get('extra_args', []))
            else:
                cmd = [exe, '--prop', prop, '--cases', job['cases'], '--maxlen', job['maxlen'], '--seed', s,
                       '--stats', stats, '--crash', crash, '--replay-out', rout] + list(job.get('extra_args', []))
            rc, out, err, wall = D.run_proc(cmd, timeout=job.get('timeout', 1800))
            kind = classify_rc(rc)
            rec = {'job': job, 'exe': exe, 'seed': s, 'kind': kind, 'rc': rc, 'wall': wall, 'stats': None, 'tape': None, 'msg': '',
                   'crashfile': str(crash), 'err': err[-3000:], 'out': out[-2000:]}
            if stats.exists():
                try:
                    rec['stats'] = json.loads(stats.read_text())
                    rec['stats']['label'] = job.get('label', '')
                    ex = Path(str(stats) + '.extra')
                    if ex.exists():
                        rec['stats']['extra'] = json.loads(ex.read_text())
                except Exception:
                    pass
            if kind == 'fail':
                rec['tape'] = str(rout)
                for l in out.splitlines():
                    if l.startswith('VF-FAIL'):
                        rec['msg'] = l.split('msg=', 1)[-1]
            out_all.append(rec)
            if kind != 'crash' or (crash_is_violation and crash_class_codes is None):
                break
        return out_all

    t0 = time.time()
    allrecs = D.pool_map(one, jobs)
    for recs in allrecs:
        for rec in recs:
            u = rec['job']['unit']
            if rec['stats']:
                rec['stats']['wall_s'] = round(rec['wall'], 2)
                res.stats.append(rec['stats'])
            if rec['kind'] == 'fail':
                confirm_and_store(res, rec['exe'], prop, u.name, rec['tape'], rec['msg'])
            elif rec['kind'] == 'crash':
                if rec['job'].get('enum'):
                    ea = list(rec['job'].get('extra_args', []))
                    tier = ea[ea.index('--tier') + 1] if '--tier' in ea else 'quick'
                    tape, sig = enum_crash_tape(rec['exe'], prop, u.name, rec['crashfile'], work, seed=rec['seed'], tier=tier)
                else:
                    tape, sig = minimise_crash(rec['exe'], prop, u.name, rec['crashfile'], work)
                attributable = crash_is_violation
                if tape and sig and crash_class_codes is not None:
                    _, ops = D.read_tape(tape)
                    codes = set(int(o.split()[0]) for o in ops)
                    attributable = bool(codes & set(crash_class_codes))
                if tape and sig and attributable:
                    confirm_and_store(res, rec['exe'], prop, u.name, tape, 'crash: ' + sig, want='crash')
                elif tape and sig:
                    res.crashed_elsewhere += 1
                    res.notes.append('crash outside the scenario class of %s in %s: %s' % (prop, u.name, sig))
                else:
                    res.unreproduced.append({'config': u.name, 'message': 'process died (rc %s) but the saved tape does not reproduce it: %s'
                                             % (rec['rc'], crash_signature(rec['err']))})
            elif rec['kind'] == 'timeout':
                res.inconclusive.append('%s: time cap hit' % u.name)
            elif rec['kind'] == 'harness':
                res.notes.append('%s: harness error: %s' % (u.name, (rec['err'] or rec['out'])[-300:]))
                res.inconclusive.append('%s: harness error' % u.name)
    res.wall = time.time() - t0
    shutil.rmtree(work, ignore_errors=True)
    return res


def merge_coverage(res, rule, extra=None):
    ev = sum(s.get('cases', 0) for s in res.stats)
    dn = sum(s.get('distinct_nontrivial', 0) for s in res.stats)
    feats = {}
    samples = []
    per = {}
    extra_sum = {}
    for s in res.stats:
        for k, v in s.get('features', {}).items():
            feats[k] = feats.get(k, 0) + v
        for x in s.get('samples', [])[:2]:
            if len(samples) < 10:
                samples.append({'config': s['cfg'], 'trace': x})
        for k, v in s.get('extra', {}).items():
            if isinstance(v, int):
                extra_sum[k] = extra_sum.get(k, 0) + v
        per[s['cfg'] + s.get('label', '')] = {'cases': s.get('cases', 0), 'ops': s.get('ops', 0), 'distinct_nontrivial': s.get('distinct_nontrivial', 0),
                         'seed': s.get('seed'), 'wall_s': s.get('wall_s')}
    cov = {'evaluations': ev, 'distinct_nontrivial': dn, 'rule': rule, 'samples': samples,
           'operations_executed': sum(s.get('ops', 0) for s in res.stats),
           'feature_histogram_cases': feats, 'configs': per, 'crashed_elsewhere': res.crashed_elsewhere,
           'unreproduced': res.unreproduced, 'inconclusive': res.inconclusive, 'notes': res.notes[:20]}
    cov.update(extra_sum)
    if extra:
        cov.update(extra)
    return cov
