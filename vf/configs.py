# Instantiation lists (echoed into the evidence). name -> C++ type expression.

def _al(kind, e):
    return {'amc': 'vf::AAmc<%s >' % e, 'std': 'vf::AStd<%s >' % e, 're': 'vf::ARe<%s >' % e,
            'realamc': 'amc::allocator<%s >' % e, 'realstd': 'std::allocator<%s >' % e}[kind]

ELEM = {'co': 'vf::CO', 'i32': 'int32_t', 'u8e': 'uint8_t', 'i64': 'int64_t', 'tc3': 'vf::TC<3,1>', 'tc7': 'vf::TC<7,1>',
        'tc12': 'vf::TC<12,4>', 'tc16a16': 'vf::TC<16,16>', 'tr': 'vf::TR', 'ntr': 'vf::NTR', 'mo': 'vf::MO'}
ST = {'u8': 'uint8_t', 'i8': 'int8_t', 'u16': 'uint16_t', 'i16': 'int16_t', 'u32': 'uint32_t', 'i32': 'int32_t', 'u64': 'uint64_t'}


def vec(n, e, st, al):
    E = ELEM[e]
    if n == 0:
        return 'amc::vector<%s,%s,%s>' % (E, _al(al, E), ST[st])
    return 'amc::SmallVector<%s,%d,%s,%s>' % (E, n, _al(al, E), ST[st])


def fcv(n, e):
    return 'amc::FixedCapacityVector<%s,%d>' % (ELEM[e], n)


# (name, type, needs C++17)
VEC_CONFIGS = [
    ('vec_0_i32_u32_amc', vec(0, 'i32', 'u32', 'amc')),
    ('vec_0_tc3_u32_amc', vec(0, 'tc3', 'u32', 'amc')),
    ('vec_0_tr_u32_re', vec(0, 'tr', 'u32', 're')),
    ('vec_0_ntr_u32_std', vec(0, 'ntr', 'u32', 'std')),
    ('vec_0_ntr_u64_amc', vec(0, 'ntr', 'u64', 'amc')),
    ('vec_0_tr_i8_std', vec(0, 'tr', 'i8', 'std')),
    ('vec_0_i32_u8_re', vec(0, 'i32', 'u8', 're')),
    ('vec_0_tc16a16_u16_std', vec(0, 'tc16a16', 'u16', 'std')),
    ('vec_0_mo_u32_amc', vec(0, 'mo', 'u32', 'amc')),
    ('vec_0_i32_u64_realstd', vec(0, 'i32', 'u64', 'realstd')),
    ('vec_0_tr_u32_realamc', vec(0, 'tr', 'u32', 'realamc')),
    ('sv_1_ntr_i16_std', vec(1, 'ntr', 'i16', 'std')),
    ('sv_1_tc12_u32_amc', vec(1, 'tc12', 'u32', 'amc')),
    ('sv_2_tr_u8_re', vec(2, 'tr', 'u8', 're')),
    ('sv_2_tc3_u32_amc', vec(2, 'tc3', 'u32', 'amc')),
    ('sv_3_ntr_u32_std', vec(3, 'ntr', 'u32', 'std')),
    ('sv_3_i32_i32_amc', vec(3, 'i32', 'i32', 'amc')),
    ('sv_4_tr_u32_re', vec(4, 'tr', 'u32', 're')),
    ('sv_4_ntr_u8_amc', vec(4, 'ntr', 'u8', 'amc')),
    ('sv_4_tc7_u16_std', vec(4, 'tc7', 'u16', 'std')),
    ('sv_4_i32_i8_std', vec(4, 'i32', 'i8', 'std')),
    ('sv_2_tc7_u32_std', vec(2, 'tc7', 'u32', 'std')),
    ('vec_0_co_u32_std', vec(0, 'co', 'u32', 'std')),
    ('sv_3_co_u16_amc', vec(3, 'co', 'u16', 'amc')),
    ('sv_3_tc3_u16_re', vec(3, 'tc3', 'u16', 're')),
    ('sv_8_u8e_u32_amc', vec(8, 'u8e', 'u32', 'amc')),
    ('sv_8_tr_u64_std', vec(8, 'tr', 'u64', 'std')),
    ('sv_8_ntr_u32_realamc', vec(8, 'ntr', 'u32', 'realamc')),
    ('sv_5_mo_u32_amc', vec(5, 'mo', 'u32', 'amc')),
    ('sv_250_i32_u8_std', vec(250, 'i32', 'u8', 'std')),
    ('sv_2_tc16a16_u32_amc', vec(2, 'tc16a16', 'u32', 'amc')),
    ('sv_6_tr_u16_amc', vec(6, 'tr', 'u16', 'amc')),
    ('vec_0_ntr_u32_re', vec(0, 'ntr', 'u32', 're')),
    ('sv_3_ntr_u16_re', vec(3, 'ntr', 'u16', 're')),
    ('sv_2_mo_u32_re', vec(2, 'mo', 'u32', 're')),
    ('fcv_1_ntr', fcv(1, 'ntr')),
    ('fcv_1_i32', fcv(1, 'i32')),
    ('fcv_6_tr', fcv(6, 'tr')),
    ('fcv_6_ntr', fcv(6, 'ntr')),
    ('fcv_6_tc3', fcv(6, 'tc3')),
    ('fcv_5_co', fcv(5, 'co')),
    ('fcv_16_i32', fcv(16, 'i32')),
    ('fcv_16_mo', fcv(16, 'mo')),
    ('fcv_255_u8e', fcv(255, 'u8e')),
    ('fcv_300_tr', fcv(300, 'tr')),
]
VEC_TYPES = dict(VEC_CONFIGS)

# rebuilt under other language standards (no move-only element: needs if constexpr)
VEC_MULTISTD = ['vec_0_ntr_u32_std', 'vec_0_tr_u32_re', 'sv_3_ntr_u32_std', 'sv_4_tr_u32_re', 'sv_2_tc3_u32_amc', 'fcv_6_ntr', 'sv_3_i32_i32_amc', 'sv_2_tc7_u32_std',
                'sv_3_tc3_u16_re', 'sv_1_tc12_u32_amc']


def vec_subset(pred):
    return [n for n, _ in VEC_CONFIGS if pred(n)]


def is_sv(n):
    return n.startswith('sv_')


def is_fcv(n):
    return n.startswith('fcv_')


def is_ledger(n):
    return not n.endswith('realstd') and not n.endswith('realamc') and not is_fcv(n)


def is_8bit(n):
    return '_u8_' in n or '_i8_' in n or is_fcv(n)


def is_tracked(n):
    return '_tr' in n or '_ntr' in n or '_mo' in n or '_co' in n


# ---------------------------------------------------------------- FlatSet configurations
CMPS = {'less': 'std::less<%s >', 'greater': 'std::greater<%s >', 'coarse': 'vf::Coarse<%s >', 'stateful': 'vf::Stateful<%s >',
        'transparent': 'vf::TLess<%s >'}
SIBLING = {'less': 'greater', 'greater': 'less', 'coarse': 'less', 'stateful': 'less', 'transparent': 'greater'}


def fs_vec(vk, E, A):
    if vk == 'amcvec':
        return 'amc::vector<%s,%s >' % (E, A), 200, 'false', 'false'
    if vk == 'sv4':
        return 'amc::SmallVector<%s,4,%s >' % (E, A), 200, 'false', 'false'
    if vk == 'fcv24':
        return 'amc::FixedCapacityVector<%s,24>' % E, 24, 'false', 'true'
    if vk == 'stdvec':
        return 'std::vector<%s,%s >' % (E, A), 200, 'true', 'false'
    raise KeyError(vk)


def flatset(cmp, vk, e, al):
    E = ELEM[e]
    A = 'amc::vec::EmptyAlloc' if vk == 'fcv24' else _al(al, E)
    V, limit, isstd, isfcv = fs_vec(vk, E, A)
    S = 'amc::FlatSet<%s,%s,%s,%s >' % (E, CMPS[cmp] % E, A, V)
    S2 = 'amc::FlatSet<%s,%s,%s,%s >' % (E, CMPS[SIBLING[cmp]] % E, A, V)
    return {'VF_S': S, 'VF_S2': S2, 'VF_LIMIT': str(limit), 'VF_IS_STD': isstd, 'VF_IS_FCV': isfcv}


FS_CONFIGS = [
    ('fs_less_amcvec_i32_amc', flatset('less', 'amcvec', 'i32', 'amc')),
    ('fs_greater_sv4_i32_std', flatset('greater', 'sv4', 'i32', 'std')),
    ('fs_coarse_fcv24_i32', flatset('coarse', 'fcv24', 'i32', 'std')),
    ('fs_stateful_stdvec_i32_std', flatset('stateful', 'stdvec', 'i32', 'std')),
    ('fs_transparent_amcvec_tr_re', flatset('transparent', 'amcvec', 'tr', 're')),
    ('fs_less_sv4_ntr_std', flatset('less', 'sv4', 'ntr', 'std')),
    ('fs_greater_fcv24_tr', flatset('greater', 'fcv24', 'tr', 'std')),
    ('fs_coarse_stdvec_ntr_std', flatset('coarse', 'stdvec', 'ntr', 'std')),
    ('fs_stateful_amcvec_ntr_amc', flatset('stateful', 'amcvec', 'ntr', 'amc')),
    ('fs_transparent_sv4_i32_amc', flatset('transparent', 'sv4', 'i32', 'amc')),
    ('fs_less_fcv24_ntr', flatset('less', 'fcv24', 'ntr', 'std')),
    ('fs_greater_stdvec_tr_std', flatset('greater', 'stdvec', 'tr', 'std')),
    ('fs_coarse_amcvec_tr_re', flatset('coarse', 'amcvec', 'tr', 're')),
    ('fs_stateful_sv4_tr_re', flatset('stateful', 'sv4', 'tr', 're')),
    ('fs_less_amcvec_mo_amc', flatset('less', 'amcvec', 'mo', 'amc')),
    ('fs_stateful_sv4_mo_std', flatset('stateful', 'sv4', 'mo', 'std')),
    ('fs_less_amcvec_tr_realamc', flatset('less', 'amcvec', 'tr', 'realamc')),
    ('fs_less_amcvec_co_std', flatset('less', 'amcvec', 'co', 'std')),
    ('fs_stateful_sv4_co_amc', flatset('stateful', 'sv4', 'co', 'amc')),
]
FS_DEFS = dict(FS_CONFIGS)
FS_MULTISTD = ['fs_less_sv4_ntr_std', 'fs_stateful_amcvec_ntr_amc', 'fs_coarse_amcvec_tr_re']


# ---------------------------------------------------------------- SmallSet configurations (C++17 and later)
def smallset_type(e, n, cmp, al, backing):
    E = ELEM[e]
    A = _al(al, E)
    Cm = CMPS[cmp] % E
    if backing == 'stdset':
        ST_ = 'std::set<%s,%s,%s >' % (E, Cm, A)
    elif backing == 'flatvec':
        ST_ = 'amc::FlatSet<%s,%s,%s,amc::vector<%s,%s > >' % (E, Cm, A, E, A)
    elif backing == 'flatstd':  # class-type iterators: SmallSet then uses its variant iterator over a non node-based backing set
        ST_ = 'amc::FlatSet<%s,%s,%s,std::vector<%s,%s > >' % (E, Cm, A, E, A)
    else:
        ST_ = 'amc::FlatSet<%s,%s,%s,amc::SmallVector<%s,3,%s > >' % (E, Cm, A, E, A)
    return 'amc::SmallSet<%s,%d,%s,%s,%s >' % (E, n, Cm, A, ST_)


def smallset(e, n, cmp, al, backing, n2, backing2):
    backing2 = backing  # SmallSet::merge only compiles between sets whose backing sets can merge with each other
    return {'VF_S': smallset_type(e, n, cmp, al, backing), 'VF_SB': smallset_type(e, n2, SIBLING[cmp], al, backing2)}


SS_CONFIGS = [
    ('ss_1_less_stdset_i32_std', smallset('i32', 1, 'less', 'std', 'stdset', 3, 'flatvec')),
    ('ss_2_greater_flatvec_i32_amc', smallset('i32', 2, 'greater', 'amc', 'flatvec', 1, 'stdset')),
    ('ss_3_coarse_flatsv_i32_std', smallset('i32', 3, 'coarse', 'std', 'flatsv', 5, 'stdset')),
    ('ss_5_stateful_stdset_i32_std', smallset('i32', 5, 'stateful', 'std', 'stdset', 2, 'flatvec')),
    ('ss_8_less_flatvec_tr_re', smallset('tr', 8, 'less', 're', 'flatvec', 3, 'flatsv')),
    ('ss_2_stateful_flatvec_ntr_std', smallset('ntr', 2, 'stateful', 'std', 'flatvec', 4, 'stdset')),
    ('ss_3_less_stdset_ntr_std', smallset('ntr', 3, 'less', 'std', 'stdset', 2, 'flatsv')),
    ('ss_1_coarse_stdset_tr_std', smallset('tr', 1, 'coarse', 'std', 'stdset', 2, 'stdset')),
    ('ss_5_greater_flatsv_ntr_amc', smallset('ntr', 5, 'greater', 'amc', 'flatsv', 8, 'flatvec')),
    ('ss_3_less_stdset_mo_std', smallset('mo', 3, 'less', 'std', 'stdset', 1, 'stdset')),
    ('ss_2_less_flatvec_mo_amc', smallset('mo', 2, 'less', 'amc', 'flatvec', 3, 'flatvec')),
    ('ss_4_transparent_stdset_i32_std', smallset('i32', 4, 'transparent', 'std', 'stdset', 2, 'flatvec')),
    ('ss_3_less_flatvec_tr_realamc', smallset('tr', 3, 'less', 'realamc', 'flatvec', 2, 'stdset')),
    ('ss_3_less_flatvec_co_std', smallset('co', 3, 'less', 'std', 'flatvec', 2, 'flatvec')),
    ('ss_20_less_stdset_i32_std', smallset('i32', 20, 'less', 'std', 'stdset', 18, 'stdset')),
    ('ss_18_greater_flatvec_ntr_amc', smallset('ntr', 18, 'greater', 'amc', 'flatvec', 24, 'flatvec')),
    ('ss_2_greater_stdset_co_amc', smallset('co', 2, 'greater', 'amc', 'stdset', 4, 'stdset')),
    ('ss_2_less_flatstd_i32_std', smallset('i32', 2, 'less', 'std', 'flatstd', 3, 'flatstd')),
    ('ss_3_greater_flatstd_ntr_std', smallset('ntr', 3, 'greater', 'std', 'flatstd', 1, 'flatstd')),
]
SS_DEFS = dict(SS_CONFIGS)
