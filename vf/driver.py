# driver.py - build cache, process pool, seed derivation, ddmin shrinker, evidence writer.
import concurrent.futures as cf
import hashlib
import json
import os
import shutil
import subprocess
import sys
import time
from pathlib import Path

ROOT = Path(__file__).resolve().parent.parent
REPO = Path(os.environ.get('AMC_REPO', '/repo'))
BUILD = ROOT / 'build'
NCPU = int(os.environ.get('VERIF_JOBS', '16'))

ASAN_FLAGS = ['-g', '-O1', '-fsanitize=address,undefined', '-fno-sanitize-recover=undefined', '-fno-omit-frame-pointer']
ASAN_ENV = {'ASAN_OPTIONS': 'detect_leaks=0:abort_on_error=0:allocator_may_return_null=1:handle_abort=1:exitcode=86',
            'UBSAN_OPTIONS': 'print_stacktrace=1:halt_on_error=1:exitcode=86',
            'TSAN_OPTIONS': 'halt_on_error=1 exitcode=66 second_deadlock_stack=1'}


def sha(*parts):
    h = hashlib.sha1()
    for p in parts:
        h.update(p if isinstance(p, bytes) else str(p).encode())
        h.update(b'\0')
    return h.hexdigest()


_repo_hash = None


def repo_hash():
    global _repo_hash
    if _repo_hash is None:
        h = hashlib.sha1()
        inc = REPO / 'include'
        for f in sorted(inc.rglob('*')):
            if f.is_file():
                h.update(str(f.relative_to(inc)).encode())
                h.update(f.read_bytes())
        _repo_hash = h.hexdigest()
    return _repo_hash


_harness_hash = None


def harness_hash():
    global _harness_hash
    if _harness_hash is None:
        h = hashlib.sha1()
        for d in ('harness', 'targets', 'engine'):
            for f in sorted((ROOT / d).rglob('*')):
                if f.is_file():
                    h.update(str(f.relative_to(ROOT)).encode())
                    h.update(f.read_bytes())
        _harness_hash = h.hexdigest()
    return _harness_hash


def tree_dir():
    d = BUILD / ('t_' + repo_hash()[:12])
    d.mkdir(parents=True, exist_ok=True)
    (d / '.stamp').write_text(str(time.time()))
    return d


def prune_builds(keep=4, min_age_s=5400):
    """drops build directories of older trees; a directory used in the last hours may belong to a check that is still running"""
    now = time.time()

    def age_key(d):
        st = d / '.stamp'
        return st.stat().st_mtime if st.exists() else d.stat().st_mtime
    ds = sorted([d for d in BUILD.glob('t_*') if d.is_dir()], key=age_key)
    for d in ds[:-keep]:
        try:
            if now - age_key(d) > min_age_s:
                shutil.rmtree(d, ignore_errors=True)
        except OSError:
            pass


_dep_cache = {}


def deps_hash(src):
    """hash of a source file and every harness file it includes (transitively)"""
    if src in _dep_cache:
        return _dep_cache[src]
    import re
    seen, todo = {}, [ROOT / src]
    while todo:
        f = todo.pop()
        if f in seen or not f.exists():
            continue
        txt = f.read_bytes()
        seen[f] = txt
        for m in re.finditer(rb'#include\s+"([^"]+)"', txt):
            name = m.group(1).decode()
            for base in (f.parent, ROOT / 'harness', ROOT / 'targets'):
                cand = base / name
                if cand.exists():
                    todo.append(cand)
                    break
    h = hashlib.sha1()
    for f in sorted(seen):
        h.update(str(f.relative_to(ROOT)).encode())
        h.update(seen[f])
    if 'interp_main.hpp' in ' '.join(str(f) for f in seen):
        h.update((ROOT / 'engine' / 'rc_engine.cpp').read_bytes())
    _dep_cache[src] = h.hexdigest()
    return _dep_cache[src]


class Unit:
    """One executable. src relative to ROOT; defines: dict; std: '17'; kind: 'asan'|'plain'|'tsan'|'fuzz'."""

    def __init__(self, name, src, defines=None, std='17', kind='asan', engine=True, extra=None, compiler=None, opt=None):
        self.name, self.src, self.defines, self.std, self.kind, self.engine = name, src, dict(defines or {}), std, kind, engine
        self.extra = list(extra or [])
        self.compiler = compiler or ('clang++' if kind == 'fuzz' else 'g++')
        self.opt = opt

    def flags(self):
        f = ['-std=c++' + self.std, '-I' + str(REPO / 'include'), '-I' + str(ROOT / 'harness')]
        if self.compiler == 'g++':
            f += ['-fno-lifetime-dse']  # keep the "dead" marker an element writes into itself in its destructor
        if self.kind == 'asan':
            f += ASAN_FLAGS
        elif self.kind == 'tsan':
            f += ['-g', '-O1', '-fsanitize=thread']
        elif self.kind == 'fuzz':
            f += ['-g', '-O1', '-fsanitize=fuzzer,address,undefined', '-fno-sanitize-recover=undefined']
        elif self.kind == 'plain':
            f += [self.opt or '-O2']
        f += self.extra
        for k, v in sorted(self.defines.items()):
            f.append('-D%s=%s' % (k, v) if v is not None else '-D%s' % k)
        return f

    def key(self):
        return sha(deps_hash(self.src), repo_hash(), self.compiler, ' '.join(self.flags()), self.src, self.engine)[:16]

    def exe(self):
        return tree_dir() / ('%s.%s' % (self.name, self.key()))


def engine_obj(kind):
    d = BUILD / 'common'
    d.mkdir(parents=True, exist_ok=True)
    src = ROOT / 'engine' / 'rc_engine.cpp'
    k = sha(src.read_bytes(), kind)[:12]
    o = d / ('rc_engine.%s.%s.o' % (kind, k))
    if not o.exists():
        flags = ['-std=c++17', '-O1', '-g']
        if kind == 'asan':
            flags += ['-fsanitize=address,undefined', '-fno-omit-frame-pointer']
        tmp = str(o) + '.tmp%d' % os.getpid()
        r = subprocess.run(['g++'] + flags + ['-c', str(src), '-o', tmp], capture_output=True, text=True)
        if r.returncode != 0:
            raise BuildError('engine', r.stderr)
        os.replace(tmp, o)
    return o


class BuildError(Exception):
    def __init__(self, name, log):
        super().__init__('build of %s failed' % name)
        self.name, self.log = name, log


def _build_one(u):
    exe = u.exe()
    if exe.exists():
        return exe
    tmp = str(exe) + '.tmp%d' % os.getpid()
    cmd = [u.compiler] + u.flags() + [str(ROOT / u.src)]
    if u.engine:
        cmd += [str(engine_obj('asan' if u.kind == 'asan' else 'plain')), '-lrapidcheck']
    if u.kind == 'tsan' or '-pthread' in u.extra:
        cmd += ['-pthread']
    cmd += ['-o', tmp]
    r = subprocess.run(cmd, capture_output=True, text=True)
    if r.returncode != 0:
        raise BuildError(u.name, ' '.join(cmd) + '\n' + r.stderr[-6000:])
    os.replace(tmp, exe)
    return exe


build_failures = []  # (unit name, log tail) of units that did not compile in a tolerant build


def ensure_built(units, quiet=False, tolerate=False):
    """tolerate: a unit that does not compile is left out of the result (recorded in build_failures) instead of raising,
    as long as at least one unit builds - a change of the library may break one harness configuration only"""
    units = list({u.name + u.key(): u for u in units}.values())
    todo = [u for u in units if not u.exe().exists()]
    if todo:
        if any(u.engine for u in todo):
            engine_obj('asan')
            engine_obj('plain')
        t0 = time.time()
        if not quiet:
            print('[build] %d unit(s) against include hash %s ...' % (len(todo), repo_hash()[:12]), flush=True)
        failed = []

        def one(u):
            try:
                _build_one(u)
            except BuildError as e:
                if not tolerate:
                    raise
                failed.append(e)
        with cf.ThreadPoolExecutor(max_workers=NCPU) as ex:
            list(ex.map(one, todo))
        if not quiet:
            print('[build] done in %.1fs' % (time.time() - t0), flush=True)
        prune_builds()
        if failed:
            if len(failed) == len(units):
                raise failed[0]
            for e in failed:
                build_failures.append((e.name, e.log[-1500:]))
                print('NOTE unit %s does not compile against this tree; it is left out (inconclusive)' % e.name, flush=True)
    return {u.name: u.exe() for u in units if u.exe().exists()}


def derive_seed(base, *parts):
    v = int(sha(base, *parts)[:8], 16) & 0x7fffffff
    return v or 1


def run_proc(cmd, env=None, timeout=3600, cwd=None):
    e = dict(os.environ)
    e.update(ASAN_ENV)
    if env:
        e.update(env)
    t0 = time.time()
    try:
        r = subprocess.run([str(c) for c in cmd], capture_output=True, text=True, env=e, timeout=timeout, cwd=cwd, errors='replace')
        return r.returncode, r.stdout, r.stderr, time.time() - t0
    except subprocess.TimeoutExpired as ex:
        return -999, (ex.stdout or b'').decode(errors='replace') if isinstance(ex.stdout, bytes) else (ex.stdout or ''), 'TIMEOUT', time.time() - t0


def pool_map(fn, items, workers=None):
    with cf.ThreadPoolExecutor(max_workers=workers or NCPU) as ex:
        return list(ex.map(fn, items))


# ---------------------------------------------------------------- tapes
def read_tape(path):
    lines = Path(path).read_text().splitlines()
    header = lines[0] if lines and ('check=' in lines[0] or 'config=' in lines[0]) else ''
    ops = [l for l in (lines[1:] if header else lines) if l.strip() and l.strip()[0].isdigit()]
    return header, ops


def write_tape(path, header, ops):
    Path(path).parent.mkdir(parents=True, exist_ok=True)
    Path(path).write_text(header + '\n' + '\n'.join(ops) + '\n')


def ddmin(ops, test):
    """classic ddmin over a list; test(list) -> True when the failure is still present"""
    n = 2
    while len(ops) >= 2:
        chunk = max(1, len(ops) // n)
        subsets = [ops[i:i + chunk] for i in range(0, len(ops), chunk)]
        reduced = False
        for i in range(len(subsets)):
            comp = [x for j, s in enumerate(subsets) if j != i for x in s]
            if comp and test(comp):
                ops = comp
                n = max(n - 1, 2)
                reduced = True
                break
        if not reduced:
            if chunk == 1:
                break
            n = min(n * 2, len(ops))
    return ops


# ---------------------------------------------------------------- evidence
NO_EVIDENCE = False  # set while a single case is replayed: a replay never rewrites the evidence of the last check run


def write_evidence(prop, tier, seed, level, coverage, wall, violations, assumptions=None, extra=None):
    if NO_EVIDENCE:
        return
    ev = {'property_id': prop, 'tier': tier, 'seed': int(seed), 'level': level, 'coverage': coverage,
          'assumptions': assumptions or [], 'wall_s': round(wall, 2), 'violations': int(violations)}
    if extra:
        ev.update(extra)
    # evidence/ describes the tree in /repo only; runs against another tree (AMC_REPO: mutants, seeded changes) keep theirs apart
    d = ROOT / 'evidence' if str(REPO) == '/repo' else BUILD / 'evidence_other_tree'
    d.mkdir(parents=True, exist_ok=True)
    p = d / (prop + '.json')
    tmp = str(p) + '.tmp'
    Path(tmp).write_text(json.dumps(ev, indent=1))
    os.replace(tmp, p)
    try:
        import jsonschema
        schema = json.loads(Path('/root/.vp/EVIDENCE.schema.json').read_text())
        jsonschema.validate(ev, schema)
    except ImportError:
        pass
    except FileNotFoundError:
        pass
    return p


def known_findings():
    p = ROOT / 'KNOWN_FINDINGS.txt'
    known, fixed = [], []
    if p.exists():
        for l in p.read_text().splitlines():
            l = l.strip()
            if l.startswith('known:'):
                kv = dict(x.split('=', 1) for x in l[6:].split() if '=' in x)
                kv['text'] = l[6:].strip()
                known.append(kv)
            elif l.startswith('fixed:'):
                fixed.append(l)
    return known, fixed
