// vf_core.hpp - violation sink, feature counters, trace hashing, crash area.
// C++11-compatible. Everything here is process-global (one interpreter per process).
#pragma once

#include <cstdarg>
#include <cstdint>
#include <cstdio>
#include <cstdlib>
#include <cstring>
#include <string>
#include <unordered_set>
#include <vector>

#include <fcntl.h>
#include <sys/mman.h>
#include <unistd.h>

namespace vf {

// ---- property bits ---------------------------------------------------------------
inline uint32_t PB(int n) { return 1u << n; }
enum {
  P01 = 1u << 1, P02 = 1u << 2, P03 = 1u << 3, P04 = 1u << 4, P05 = 1u << 5, P06 = 1u << 6, P07 = 1u << 7,
  P08 = 1u << 8, P09 = 1u << 9, P10 = 1u << 10, P11 = 1u << 11, P12 = 1u << 12, P13 = 1u << 13, P14 = 1u << 14,
  P15 = 1u << 15, P16 = 1u << 16, P17 = 1u << 17, P18 = 1u << 18, P19 = 1u << 19, P20 = 1u << 20,
  // a violation that does not put the harness itself at risk: when it belongs to another property than the one being
  // checked, the case goes on (its consequences may be a violation of the checked property)
  PSOFT = 1u << 31
};

inline int parse_prop(const char *s) {  // "C07" -> 7
  if (!s || (s[0] != 'C' && s[0] != 'c')) return 0;
  return atoi(s + 1);
}

// ---- global context --------------------------------------------------------------
struct Ctx {
  uint32_t fatal_mask;      // violations carrying one of these bits fail the case
  int prop;                 // property number the process serves (1..20)
  bool failed;              // current case failed (fatal violation)
  uint32_t failed_props;    // bits of the first fatal violation
  char msg[768];            // message of the first fatal violation
  bool resource_skip;       // case exceeded a harness resource (not a violation)
  uint64_t nonfatal;        // violations seen that belong to other properties only (and may have corrupted something)
  uint64_t nonfatal_soft;   // same, but harmless for the rest of the case
  char nonfatal_msg[256];
  uint32_t extra_tag;       // bits OR-ed into every violation raised (set by the interpreter per op)
  bool verbose;             // replay mode: print every effective op
  const char *cfg_name;
  // per-case trace hash + feature bits
  uint64_t trace_hash;
  uint64_t case_features;
  uint32_t case_mut_ops;
  // totals
  uint64_t cases, ops, skipped_cases;
  uint64_t feat_total[64];
  uint64_t nontrivial_cases;
  std::unordered_set<uint64_t> *distinct;     // hashes of non-trivial cases
  std::vector<std::string> *samples;          // a few traces
  std::string *cur_trace;                     // textual trace of the current case (kept short)
  bool keep_trace;
};

inline Ctx &ctx() {
  static Ctx c;
  return c;
}

inline void violation(uint32_t props, const char *fmt, ...) __attribute__((format(printf, 2, 3)));
inline void violation(uint32_t props, const char *fmt, ...) {
  Ctx &c = ctx();
  props |= c.extra_tag;
  char buf[700];
  va_list ap;
  va_start(ap, fmt);
  vsnprintf(buf, sizeof buf, fmt, ap);
  va_end(ap);
  if (props & c.fatal_mask) {
    if (!c.failed) {
      c.failed = true;
      c.failed_props = props;
      snprintf(c.msg, sizeof c.msg, "%s", buf);
    }
  } else if (props & PSOFT) {
    ++c.nonfatal_soft;
  } else {
    if (c.nonfatal == 0) snprintf(c.nonfatal_msg, sizeof c.nonfatal_msg, "%s", buf);
    ++c.nonfatal;
  }
  if (c.verbose) fprintf(stderr, "  !! violation[%s] props=%#x: %s\n", (props & c.fatal_mask) ? "fatal" : "other", props, buf);
}

inline bool failed() { return ctx().failed; }

// A violation of another property may leave the containers corrupt; the interpreter stops the case
// (without failing it) as soon as anything was flagged.
inline bool tainted() { return ctx().failed || ctx().nonfatal != 0 || ctx().resource_skip; }

struct ExtraTag {  // RAII: tag violations raised inside a scope with additional property bits
  uint32_t old;
  explicit ExtraTag(uint32_t t) : old(ctx().extra_tag) { ctx().extra_tag |= t; }
  ~ExtraTag() { ctx().extra_tag = old; }
};

// ---- trace hashing / features ------------------------------------------------------
inline void th_mix(uint64_t v) {
  uint64_t &h = ctx().trace_hash;
  for (int i = 0; i < 8; ++i) {
    h ^= (v >> (i * 8)) & 0xff;
    h *= 1099511628211ull;
  }
}
inline void feature(int bit) { ctx().case_features |= (1ull << bit); }
inline bool has_feature(int bit) { return (ctx().case_features >> bit) & 1; }

inline void trace(const char *fmt, ...) __attribute__((format(printf, 1, 2)));
inline void trace(const char *fmt, ...) {
  Ctx &c = ctx();
  if (!c.keep_trace && !c.verbose) return;
  char buf[256];
  va_list ap;
  va_start(ap, fmt);
  vsnprintf(buf, sizeof buf, fmt, ap);
  va_end(ap);
  if (c.verbose) fprintf(stderr, "  %s\n", buf);
  if (c.keep_trace && c.cur_trace && c.cur_trace->size() < 1500) {
    if (!c.cur_trace->empty()) c.cur_trace->append("; ");
    c.cur_trace->append(buf);
  }
}

inline void case_begin() {
  Ctx &c = ctx();
  c.failed = false;
  c.failed_props = 0;
  c.msg[0] = 0;
  c.resource_skip = false;
  c.nonfatal = 0;
  c.nonfatal_soft = 0;
  c.nonfatal_msg[0] = 0;
  c.extra_tag = 0;
  c.trace_hash = 1469598103934665603ull;
  c.case_features = 0;
  c.case_mut_ops = 0;
  if (!c.distinct) c.distinct = new std::unordered_set<uint64_t>();
  if (!c.samples) c.samples = new std::vector<std::string>();
  if (!c.cur_trace) c.cur_trace = new std::string();
  c.cur_trace->clear();
  // keep a textual trace for the first cases of some sizes so that samples are cheap
  c.keep_trace = (c.samples->size() < 6 && (c.cases % 97) == 13) || c.verbose;
}

// nontrivial: decided by the interpreter's rule for the active property
inline void case_end(bool nontrivial) {
  Ctx &c = ctx();
  ++c.cases;
  if (c.resource_skip) ++c.skipped_cases;
  for (int i = 0; i < 64; ++i)
    if ((c.case_features >> i) & 1) ++c.feat_total[i];
  if (nontrivial && !c.failed && !c.resource_skip && c.nonfatal == 0 && c.nonfatal_soft == 0) {
    ++c.nontrivial_cases;
    if (c.distinct->size() < 4000000) c.distinct->insert(c.trace_hash);
    if (c.keep_trace && !c.verbose && c.samples->size() < 6 && !c.cur_trace->empty()) c.samples->push_back(*c.cur_trace);
  }
}

// ---- crash area: the tape being executed lives in a MAP_SHARED file so that it survives any death
struct CrashArea {
  uint32_t magic;
  uint32_t len;       // bytes of tape
  uint32_t running;   // 1 while a case executes
  uint32_t op_index;  // op being executed
  uint64_t cases_done;
  char cfg[64];
  unsigned char tape[16384];
};

inline CrashArea *&crash_area() {
  static CrashArea *p = 0;
  return p;
}

inline void crash_area_open(const char *path) {
  int fd = open(path, O_RDWR | O_CREAT | O_TRUNC, 0644);
  if (fd < 0) return;
  if (ftruncate(fd, sizeof(CrashArea)) != 0) {
    close(fd);
    return;
  }
  void *m = mmap(0, sizeof(CrashArea), PROT_READ | PROT_WRITE, MAP_SHARED, fd, 0);
  close(fd);
  if (m == MAP_FAILED) return;
  crash_area() = static_cast<CrashArea *>(m);
  crash_area()->magic = 0x56464352;
  crash_area()->running = 0;
}

inline void crash_area_set(const unsigned char *tape, size_t nbytes) {
  CrashArea *a = crash_area();
  if (!a) return;
  if (nbytes > sizeof a->tape) nbytes = sizeof a->tape;
  if (nbytes) memcpy(a->tape, tape, nbytes);
  a->len = static_cast<uint32_t>(nbytes);
  a->op_index = 0;
  a->running = 1;
  snprintf(a->cfg, sizeof a->cfg, "%s", ctx().cfg_name ? ctx().cfg_name : "");
}
inline void crash_area_op(uint32_t idx) {
  if (crash_area()) crash_area()->op_index = idx;
}
inline void crash_area_done() {
  CrashArea *a = crash_area();
  if (!a) return;
  a->running = 0;
  a->cases_done = ctx().cases;
}

// ---- JSON helpers for the stats block ----------------------------------------------
inline std::string json_escape(const std::string &s) {
  std::string o;
  for (size_t i = 0; i < s.size(); ++i) {
    char ch = s[i];
    if (ch == '"' || ch == '\\') {
      o += '\\';
      o += ch;
    } else if (static_cast<unsigned char>(ch) < 0x20) {
      char b[8];
      snprintf(b, sizeof b, "\\u%04x", ch);
      o += b;
    } else
      o += ch;
  }
  return o;
}

}  // namespace vf
