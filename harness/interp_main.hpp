// interp_main.hpp - common main() of the tape interpreters: pbt (rapidcheck engine), replay, crash-area dump.
#pragma once

#include <cstdio>
#include <cstdlib>
#include <cstring>
#include <string>
#include <vector>

#include "alloc.hpp"
#include "tape.hpp"
#include "vf_core.hpp"

extern "C" {
struct VfRcSpec {
  const uint32_t *weights;
  int ncodes;
  int nominal_size;
};
typedef int (*vf_case_fn)(const unsigned char *tape, size_t nops, void *ctx);
int vf_rc_run(const VfRcSpec *spec, vf_case_fn fn, void *ctx, unsigned char *out_tape, size_t *out_nops, size_t out_cap_ops);
}

namespace vf {

struct MainArgs {
  const char *prop;
  const char *stats;
  const char *crash;
  const char *replay;
  const char *replay_out;
  const char *dump_crash;
  const char *emit_tapes;   // generate tapes only (no execution) into this file
  const char *transcript_in, *transcript_out;
  long cases, maxlen;
  unsigned long long seed;
  bool verbose;
};

inline MainArgs parse_args(int argc, char **argv) {
  MainArgs a;
  memset(&a, 0, sizeof a);
  a.prop = "C01";
  a.cases = 1000;
  a.maxlen = 40;
  a.seed = 1;
  for (int i = 1; i < argc; ++i) {
    std::string s = argv[i];
    const char *nx = (i + 1 < argc) ? argv[i + 1] : "";
    if (s == "--prop") a.prop = nx, ++i;
    else if (s == "--stats") a.stats = nx, ++i;
    else if (s == "--crash") a.crash = nx, ++i;
    else if (s == "--replay") a.replay = nx, ++i;
    else if (s == "--replay-out") a.replay_out = nx, ++i;
    else if (s == "--dump-crash") a.dump_crash = nx, ++i;
    else if (s == "--emit-tapes") a.emit_tapes = nx, ++i;
    else if (s == "--transcript") { a.transcript_in = nx; a.transcript_out = (i + 2 < argc) ? argv[i + 2] : ""; i += 2; }
    else if (s == "--cases") a.cases = atol(nx), ++i;
    else if (s == "--maxlen") a.maxlen = atol(nx), ++i;
    else if (s == "--seed") a.seed = strtoull(nx, 0, 10), ++i;
    else if (s == "-v") a.verbose = true;
  }
  return a;
}

// which violations are fatal for a process serving property p (crash attribution is the driver's business)
inline uint32_t fatal_mask_for(int p) { return 1u << p; }

template <class Interp>
struct CaseCtx {
  Interp *I;
};

template <class Interp>
int case_trampoline(const unsigned char *tape, size_t nops, void *vctx) {
  Interp *I = static_cast<CaseCtx<Interp> *>(vctx)->I;
  crash_area_set(tape, nops * 5);
  std::vector<Op> ops = tape_from_bytes(tape, nops * 5);
  bool failed = I->run(ops.empty() ? 0 : &ops[0], ops.size());
  crash_area_done();
  return failed ? 1 : 0;
}

typedef const char *(*feat_name_fn)(int);

inline int emit_trampoline(const unsigned char *tape, size_t nops, void *vctx) {
  FILE *f = static_cast<FILE *>(vctx);
  for (size_t i = 0; i < nops; ++i) fprintf(f, "%d %d %d %d %d\n", tape[5 * i], tape[5 * i + 1], tape[5 * i + 2], tape[5 * i + 3], tape[5 * i + 4]);
  fprintf(f, "\n");
  return 0;
}

inline void write_stats(const char *path, const char *cfg, const MainArgs &a, feat_name_fn fname, int result, const std::string &failmsg) {
  FILE *f = path ? fopen(path, "w") : stdout;
  if (!f) return;
  Ctx &c = ctx();
  fprintf(f, "{\"cfg\":\"%s\",\"prop\":\"%s\",\"seed\":%llu,\"cases\":%llu,\"ops\":%llu,\"skipped\":%llu,\"nontrivial\":%llu,\"distinct_nontrivial\":%zu,",
          cfg, a.prop, a.seed, (unsigned long long)c.cases, (unsigned long long)c.ops, (unsigned long long)c.skipped_cases,
          (unsigned long long)c.nontrivial_cases, c.distinct ? c.distinct->size() : (size_t)0);
  fprintf(f, "\"result\":%d,\"fail_msg\":\"%s\",\"malloc_hook\":%s,\"features\":{", result, json_escape(failmsg).c_str(), mstats().installed ? "true" : "false");
  bool first = true;
  for (int i = 0; i < 64; ++i) {
    const char *n = fname ? fname(i) : 0;
    if (!n) continue;
    fprintf(f, "%s\"%s\":%llu", first ? "" : ",", n, (unsigned long long)c.feat_total[i]);
    first = false;
  }
  fprintf(f, "},\"samples\":[");
  if (c.samples)
    for (size_t i = 0; i < c.samples->size(); ++i) fprintf(f, "%s\"%s\"", i ? "," : "", json_escape((*c.samples)[i]).c_str());
  fprintf(f, "]}\n");
  if (path) fclose(f);
}

// Interp must offer: bool run(const Op*, size_t); const char* cfgname;
template <class Interp>
int interp_main(int argc, char **argv, Interp &I, const uint32_t *weights, int ncodes, feat_name_fn fname) {
  MainArgs a = parse_args(argc, argv);
  Ctx &c = ctx();
  c.prop = parse_prop(a.prop);
  c.fatal_mask = fatal_mask_for(c.prop);
  c.cfg_name = I.cfgname;
  c.verbose = a.verbose;
  install_malloc_hook();

  if (a.dump_crash) {  // convert a crash area into a text tape on stdout
    FILE *f = fopen(a.dump_crash, "rb");
    if (!f) return 3;
    static CrashArea ca;
    size_t got = fread(&ca, 1, sizeof ca, f);
    fclose(f);
    if (got < 80 || ca.magic != 0x56464352) return 3;
    printf("check=%s config=%s running=%u op_index=%u\n", a.prop, ca.cfg, ca.running, ca.op_index);
    for (uint32_t i = 0; i + 5 <= ca.len; i += 5) printf("%d %d %d %d %d\n", ca.tape[i], ca.tape[i + 1], ca.tape[i + 2], ca.tape[i + 3], ca.tape[i + 4]);
    return 0;
  }
  if (a.crash) crash_area_open(a.crash);

  if (a.emit_tapes) {  // tapes only: the corpus other builds will replay (C16)
    char params[256];
    snprintf(params, sizeof params, "seed=%llu max_success=%ld max_size=%ld", a.seed ? a.seed : 1, a.cases, a.maxlen);
    setenv("RC_PARAMS", params, 1);
    FILE *f = fopen(a.emit_tapes, "w");
    if (!f) return 3;
    VfRcSpec spec;
    spec.weights = weights;
    spec.ncodes = ncodes;
    spec.nominal_size = 100;
    static unsigned char dummy[16];
    size_t n = 0;
    vf_rc_run(&spec, &emit_trampoline, f, dummy, &n, 0);
    fclose(f);
    return 0;
  }
  if (a.transcript_in) {  // run every tape of the corpus, write the observable state after every op
    FILE *in = fopen(a.transcript_in, "r");
    FILE *out = fopen(a.transcript_out, "w");
    if (!in || !out) return 3;
    c.fatal_mask = 0xffffffffu;  // any violation in any build is reported in the transcript
    char line[256];
    std::vector<Op> ops;
    unsigned long tapeno = 0;
    std::string st;
    for (;;) {
      char *got = fgets(line, sizeof line, in);
      int v[5];
      if (got && sscanf(line, "%d %d %d %d %d", &v[0], &v[1], &v[2], &v[3], &v[4]) == 5) {
        Op o = {static_cast<uint8_t>(v[0]), static_cast<uint8_t>(v[1]), static_cast<uint8_t>(v[2]), static_cast<uint8_t>(v[3]), static_cast<uint8_t>(v[4])};
        ops.push_back(o);
        continue;
      }
      if (!ops.empty() || (got && tapeno == 0 && false)) {
        fprintf(out, "tape %lu\n", tapeno);
        I.transcript = out;
        bool failed = I.run(&ops[0], ops.size());
        I.transcript = 0;
        if (failed || c.nonfatal) fprintf(out, "VIOLATION %s\n", failed ? c.msg : c.nonfatal_msg);
        fprintf(out, "end nontrivial=%d\n", I.nontrivial() ? 1 : 0);
        ++tapeno;
        ops.clear();
      } else if (got) {
        ++tapeno;  // empty tape
      }
      if (!got) break;
    }
    fclose(in);
    fclose(out);
    printf("transcript tapes=%lu\n", tapeno);
    return 0;
  }

  if (a.replay) {
    ReplayFile rf;
    if (!replay_read(a.replay, rf)) {
      fprintf(stderr, "cannot read %s\n", a.replay);
      return 3;
    }
    std::vector<unsigned char> bytes;
    for (size_t i = 0; i < rf.ops.size(); ++i) {
      bytes.push_back(rf.ops[i].code);
      bytes.push_back(rf.ops[i].a);
      bytes.push_back(rf.ops[i].b);
      bytes.push_back(rf.ops[i].c);
      bytes.push_back(rf.ops[i].d);
    }
    crash_area_set(bytes.empty() ? 0 : &bytes[0], bytes.size());
    bool failed = I.run(rf.ops.empty() ? 0 : &rf.ops[0], rf.ops.size());
    crash_area_done();
    if (failed) {
      printf("VF-REPLAY fail prop=%s cfg=%s msg=%s\n", a.prop, I.cfgname, c.msg);
      return 1;
    }
    printf("VF-REPLAY pass prop=%s cfg=%s%s%s\n", a.prop, I.cfgname, c.nonfatal ? " other-property-violation: " : "", c.nonfatal ? c.nonfatal_msg : "");
    return 0;
  }

  // pbt
  char params[256];
  unsigned long long seed = a.seed ? a.seed : 1;
  snprintf(params, sizeof params, "seed=%llu max_success=%ld max_size=%ld noshrink=0 verbose_progress=0", seed, a.cases, a.maxlen);
  setenv("RC_PARAMS", params, 1);
  VfRcSpec spec;
  spec.weights = weights;
  spec.ncodes = ncodes;
  spec.nominal_size = 100;
  CaseCtx<Interp> cc;
  cc.I = &I;
  static unsigned char out[16384];
  size_t out_nops = 0;
  // rapidcheck prints its own report to stderr; keep it out of the way
  int r = vf_rc_run(&spec, &case_trampoline<Interp>, &cc, out, &out_nops, sizeof(out) / 5);
  std::string failmsg;
  if (r == 1) {
    // run the shrunk tape once more to capture message and trace
    std::vector<Op> ops = tape_from_bytes(out, out_nops * 5);
    c.verbose = false;
    uint64_t cases_before = c.cases;
    (void)cases_before;
    I.run(ops.empty() ? 0 : &ops[0], ops.size());
    failmsg = c.msg;
    if (a.replay_out) {
      char hdr[512];
      snprintf(hdr, sizeof hdr, "check=%s config=%s seed=%llu  # %s", a.prop, I.cfgname, seed, c.msg);
      replay_write(a.replay_out, hdr, out, out_nops, 0);
    }
    printf("VF-FAIL prop=%s cfg=%s nops=%zu msg=%s\n", a.prop, I.cfgname, out_nops, failmsg.c_str());
  } else if (r == 2) {
    failmsg = "rapidcheck gave up or failed without a failing case";
  }
  write_stats(a.stats, I.cfgname, a, fname, r, failmsg);
  return r == 0 ? 0 : (r == 1 ? 1 : 3);
}

}  // namespace vf
