// fault_interp.hpp - C09: for every scenario, every index k of the k-th throwing event (element construction / copy /
// copy assignment / allocator request) is armed in turn; basic guarantee always, strong guarantee where documented.
#pragma once

#include <algorithm>
#include <string>
#include <vector>

#include <amc/fixedcapacityvector.hpp>
#include <amc/smallvector.hpp>
#include <amc/vector.hpp>

#include "alloc.hpp"
#include "elem.hpp"
#include "iters.hpp"
#include "tape.hpp"
#include "vec_interp.hpp"  // VecTraits
#include "vf_core.hpp"

namespace vf {

enum FaultFeat { FF_AFTER_PROGRESS = 0, FF_ALLOC_FAULT, FF_ELEM_FAULT, FF_STRONG_OP, FF_MID, FF_GROWS, FF_HEAP, FF_INLINE, FF_KNOWN_SKIPPED, FF_NFEAT };
inline const char *fault_feat_name(int i) {
  static const char *n[] = {"throw_after_progress", "allocator_fault", "element_fault", "strong_guarantee_op", "interior_position",
                            "op_reallocates", "heap_backed", "inline_storage", "known_finding_scenario_skipped"};
  return (i >= 0 && i < FF_NFEAT) ? n[i] : 0;
}

static const int kFaultNumOps = 25;

struct Scenario {
  int op, s0, capmode, storage, pos, cnt, kind, val;
};

template <class V>
class FaultInterp {
 public:
  typedef VecTraits<V> T;
  typedef typename T::E E;
  typedef typename T::ST ST;
  const char *cfgname;
  bool mask_known;            // exclude the scenario classes listed as known findings (counted)
  uint64_t known_skipped;
  uint64_t pairs, scenarios;
  std::string last_desc;
  FILE *transcript;

  explicit FaultInterp(const char *name) : cfgname(name), mask_known(true), known_skipped(0), pairs(0), scenarios(0), transcript(0) {}

  static const char *op_name(int op) {
    static const char *n[] = {"push_back(const&)", "push_back(&&)", "emplace_back", "insert(pos,const&)", "insert(pos,&&)", "emplace(pos)",
                              "insert(pos,n,v)", "insert(pos,first,last)", "insert(pos,ilist)", "resize(n)", "resize(n,v)", "assign(n,v)",
                              "assign(first,last)", "append(n)", "append(n,v)", "append(first,last)", "reserve", "shrink_to_fit",
                              "Vector(const Vector&)", "operator=(const Vector&)", "Vector(n)", "Vector(n,v)", "Vector(first,last)", "swap2(grow)",
                              "operator=(ilist)"};
    return n[op];
  }
  static long limit() { return T::is_fcv ? T::N : std::min<long>(T::st_max(), 200); }

  Scenario decode(const Op &o) const {
    Scenario s;
    s.op = o.code % kFaultNumOps;
    s.s0 = (o.a % 8 == 7) ? 9 + o.a / 8 % 8 : o.a % 7;
    s.capmode = (o.a / 64) & 1;
    s.storage = (o.a / 128) & 1;
    s.pos = o.b;
    s.cnt = (o.c % 8 == 7) ? 8 + o.c / 8 % 6 : o.c % 7;
    s.kind = o.d % RK_COUNT;
    s.val = o.d / 7 % 16;
    return s;
  }

  struct Built {
    V *c;
    void *mem;
    std::vector<int> vals;
  };
  static void *obj_alloc() {
    void *p = 0;
    size_t al = alignof(V) < 16 ? 16 : alignof(V);
    if (posix_memalign(&p, al, (sizeof(V) + al - 1) / al * al) != 0) abort();
    return p;
  }
  Built build(const Scenario &sc, long extra_room) {
    Built b;
    b.mem = obj_alloc();
    b.c = new (b.mem) V();
    long s0 = std::min<long>(sc.s0, limit());
    if (T::kind == 1 && sc.storage == 1) b.c->reserve(static_cast<ST>(std::min<long>(T::N + 1, T::st_max())));
    for (long k = 0; k < s0; ++k) {
      b.c->emplace_back(100 + static_cast<int>(k));
      b.vals.push_back(100 + static_cast<int>(k));
    }
    if (!T::is_fcv) {
      if (sc.capmode == 0) {
        long want = std::min<long>(s0 + extra_room + 2, T::st_max());
        b.c->reserve(static_cast<ST>(want));
      } else {
        b.c->shrink_to_fit();
      }
    }
    return b;
  }
  void destroy(Built &b) {
    b.c->~V();
    free(b.mem);
    b.c = 0;
  }

  struct FnInsert {
    V *c;
    long pos;
    template <class It>
    void operator()(It f, It l) { c->insert(c->begin() + pos, f, l); }
  };
  struct FnAssign {
    V *c;
    template <class It>
    void operator()(It f, It l) { c->assign(f, l); }
  };
  struct FnAppend {
    V *c;
    template <class It>
    void operator()(It f, It l) { c->append(f, l); }
  };
  struct FnCtor {
    void *mem;
    template <class It>
    void operator()(It f, It l) {
      V *t = new (mem) V(f, l);
      t->~V();
    }
  };

  // executes the op; temporaries are created before faults are switched on
  void do_op(const Scenario &sc, Built &b, Built &other, long pos, long cnt, bool arm, uint64_t k) {
    V &c = *b.c;
    E tmp(ET<E>::make(sc.val));
    const E &ref = tmp;
    std::vector<int> rv;
    for (long q = 0; q < cnt; ++q) rv.push_back((sc.val + static_cast<int>(q)) % 16);
    struct Arm {
      Arm(bool arm, uint64_t k) {
        fault_reset();
        if (arm) {
          faults().armed = true;
          faults().target = k;
        } else
          faults().counting = true;
      }
      ~Arm() { faults().armed = faults().counting = false; }
    };
    // range sources allocate their own storage before the window: build them first through with_range, which
    // constructs elements (fault points!) - so faults are switched on inside the functors for range ops
    switch (sc.op) {
      case 0: { Arm a(arm, k); c.push_back(ref); break; }
      case 1: { Arm a(arm, k); c.push_back(std::move(tmp)); break; }
      case 2: { Arm a(arm, k); c.emplace_back(sc.val); break; }
      case 3: { Arm a(arm, k); c.insert(c.begin() + pos, ref); break; }
      case 4: { Arm a(arm, k); c.insert(c.begin() + pos, std::move(tmp)); break; }
      case 5: { Arm a(arm, k); c.emplace(c.begin() + pos, sc.val); break; }
      case 6: { Arm a(arm, k); c.insert(c.begin() + pos, static_cast<ST>(cnt), ref); break; }
      case 7: { ArmedRange<FnInsert> f = {FnInsert{&c, pos}, arm, k}; with_range<E>(sc.kind, rv, f); break; }
      case 8: {
        std::initializer_list<E> il = {ET<E>::make(sc.val), ET<E>::make(sc.val + 1), ET<E>::make(sc.val + 2)};
        Arm a(arm, k);
        c.insert(c.begin() + pos, il);
        break;
      }
      case 9: { Arm a(arm, k); c.resize(static_cast<ST>(cnt)); break; }
      case 10: { Arm a(arm, k); c.resize(static_cast<ST>(cnt), ref); break; }
      case 11: { Arm a(arm, k); c.assign(static_cast<ST>(cnt), ref); break; }
      case 12: { ArmedRange<FnAssign> f = {FnAssign{&c}, arm, k}; with_range<E>(sc.kind, rv, f); break; }
      case 13: { Arm a(arm, k); c.append(static_cast<ST>(cnt)); break; }
      case 14: { Arm a(arm, k); c.append(static_cast<ST>(cnt), ref); break; }
      case 15: { ArmedRange<FnAppend> f = {FnAppend{&c}, arm, k}; with_range<E>(sc.kind, rv, f); break; }
      case 16: { Arm a(arm, k); c.reserve(static_cast<ST>(cnt)); break; }
      case 17: { Arm a(arm, k); c.shrink_to_fit(); break; }
      case 18: {
        void *m2 = obj_alloc();
        struct Free { void *p; ~Free() { free(p); } } fr = {m2};
        Arm a(arm, k);
        V *t = new (m2) V(static_cast<const V &>(c));
        faults().armed = faults().counting = false;
        t->~V();
        break;
      }
      case 19: { Arm a(arm, k); *other.c = static_cast<const V &>(c); break; }
      case 20: {
        void *m2 = obj_alloc();
        struct Free { void *p; ~Free() { free(p); } } fr = {m2};
        Arm a(arm, k);
        V *t = new (m2) V(static_cast<ST>(cnt));
        faults().armed = faults().counting = false;
        t->~V();
        break;
      }
      case 21: {
        void *m2 = obj_alloc();
        struct Free { void *p; ~Free() { free(p); } } fr = {m2};
        Arm a(arm, k);
        V *t = new (m2) V(static_cast<ST>(cnt), ref);
        faults().armed = faults().counting = false;
        t->~V();
        break;
      }
      case 22: {
        void *m2 = obj_alloc();
        struct Free { void *p; ~Free() { free(p); } } fr = {m2};
        ArmedRange<FnCtor> f = {FnCtor{m2}, arm, k};
        with_range<E>(sc.kind, rv, f);
        break;
      }
      case 23: { Arm a(arm, k); c.swap2(*other.c); break; }
      default: {
        std::initializer_list<E> il = {ET<E>::make(sc.val), ET<E>::make(sc.val + 1), ET<E>::make(sc.val + 2)};
        Arm a(arm, k);
        c = il;
        break;
      }
    }
  }
  template <class Fn>
  struct ArmedRange {
    Fn fn;
    bool arm;
    uint64_t k;
    template <class It>
    void operator()(It f, It l) {
      fault_reset();
      if (arm) {
        faults().armed = true;
        faults().target = k;
      } else
        faults().counting = true;
      struct Off { ~Off() { faults().armed = faults().counting = false; } } off;
      fn(f, l);
    }
  };

  static bool strong_op(const Scenario &sc, long pos, long size) {
    // the statement promises the strong guarantee 'element moves being noexcept'; with a copy-only element a move is a throwing copy
    if (!std::is_nothrow_move_constructible<E>::value) return false;
    switch (sc.op) {
      case 0: case 1: case 2: case 3: case 4: case 5: return true;
      case 6: case 8: return pos == size;
      case 7: return pos == size && sc.kind != RK_INPUT;
      case 9: case 10: return true;   // only growing resizes have fault points at all
      case 13: case 14: return true;
      case 15: return sc.kind != RK_INPUT;
      case 16: case 17: case 18: return true;
      default: return false;
    }
  }
  // scenario classes recorded as known findings (KNOWN_FINDINGS.txt); masked from the main search, probed separately
  static bool known_class(const Scenario &sc, long pos, long size, long cnt) {
    (void)sc; (void)pos; (void)size; (void)cnt;
#ifdef VF_KNOWN_INSERT_MULTI_MID
    if ((sc.op == 6 || sc.op == 7 || sc.op == 8) && pos < size && cnt > 0) return true;
#endif
    return false;
  }

  bool read_values(const V &c, std::vector<int> &out) {
    out.clear();
    for (typename V::const_iterator it = c.begin(); it != c.end(); ++it) {
      if (!ET<E>::readable(*it)) return false;
      out.push_back(val_of(*it));
    }
    return true;
  }

  // returns true when the scenario (some k) violated C09
  bool run_scenario(const Scenario &sc0) {
    ExtraTag tg09(P09);  // whatever the ledgers report inside a fault scenario is a C09 matter
    Scenario sc = sc0;
    ++scenarios;
    long lim = limit();
    long s0 = std::min<long>(sc.s0, lim);
    long cnt = sc.cnt;
    // sizes requested by absolute-size ops
    bool absolute = (sc.op == 9 || sc.op == 10 || sc.op == 11 || sc.op == 16 || sc.op == 20 || sc.op == 21);
    if (absolute) cnt = std::min<long>(cnt + (sc.op == 16 ? s0 : 0), lim);
    else if (sc.op == 8 || sc.op == 24) cnt = 3;
    else if (sc.op <= 5) cnt = 1;
    long room = lim - s0;
    if (!absolute && sc.op != 24 && sc.op != 12 && sc.op != 22 && sc.op < 16 && cnt > room) cnt = room;
    if ((sc.op == 12 || sc.op == 22) && cnt > lim) cnt = lim;
    if (sc.op <= 5 && room < 1) return false;
    if (sc.op == 8 && room < 3) return false;
    if (sc.op == 24 && lim < 3) return false;
    if (!ET<E>::copyable) return false;
    long pos = sc.pos % (s0 + 1);
    char desc[256];
    snprintf(desc, sizeof desc, "%s size=%ld pos=%ld cnt=%ld kind=%s capmode=%s storage=%s", op_name(sc.op), s0, pos, cnt, range_kind_name(sc.kind),
             sc.capmode ? "tight" : "spare", sc.storage ? "heap" : "inline-if-possible");
    last_desc = desc;
    if (mask_known && known_class(sc, pos, s0, cnt)) {
      ++known_skipped;
      feature(FF_KNOWN_SKIPPED);
      return false;
    }
    Scenario other_sc = sc;
    other_sc.s0 = (sc.op == 23) ? std::min<long>(s0 + 9, lim) : (sc.val % 5);
    other_sc.capmode = 1;
    // ---- dry run: count fault points
    ledgers_reset();
    aledger_reset();
    uint64_t P = 0;
    {
      Built b = build(sc, cnt), o = build(other_sc, 0);
      try {
        do_op(sc, b, o, pos, cnt, false, 0);
      } catch (...) {
        violation(P09, "%s: exception without any injected fault", desc);
      }
      P = faults().passed;
      faults().counting = false;
      if (tainted()) return ctx().failed;
      destroy(b);
      destroy(o);
      if (cells().live != 0 || shells().live != 0 || aledger().outstanding != 0) {
        violation(P02 | P06, "%s: leak without any fault (cells %u, shells %u, blocks %u)", desc, cells().live, shells().live, aledger().outstanding);
        return ctx().failed;
      }
    }
    th_mix(static_cast<uint64_t>(sc.op) | (s0 << 8) | (pos << 16) | (cnt << 24) | (static_cast<uint64_t>(sc.kind) << 32) | (static_cast<uint64_t>(sc.capmode) << 36) |
           (static_cast<uint64_t>(sc.storage) << 37) | (static_cast<uint64_t>(P) << 40));
    trace("%s P=%lu", desc, (unsigned long)P);
    // ---- every k
    for (uint64_t k = 0; k < P && !tainted(); ++k) {
      ++pairs;
      ledgers_reset();
      aledger_reset();
      Built b = build(sc, cnt), o = build(other_sc, 0);
      std::vector<int> before = b.vals, obefore = o.vals;
      const long cap_before = static_cast<long>(b.c->capacity());
      const bool inl = reinterpret_cast<const char *>(b.c->data()) >= static_cast<const char *>(b.mem) &&
                       reinterpret_cast<const char *>(b.c->data()) < static_cast<const char *>(b.mem) + sizeof(V);
      feature(inl ? FF_INLINE : FF_HEAP);
      if (s0 + (absolute ? 0 : cnt) > cap_before || (absolute && cnt > cap_before)) feature(FF_GROWS);
      if (pos > 0 && pos < s0) feature(FF_MID);
      uint64_t ev0 = events().total() + aledger().requests;
      bool threw = false, alloc_fault = false;
      try {
        do_op(sc, b, o, pos, cnt, true, k);
      } catch (const InjectedFault &) {
        threw = true;
      } catch (const InjectedBadAlloc &) {
        threw = alloc_fault = true;
      } catch (const std::exception &e) {
        violation(P09, "%s, fault %lu of %lu: another exception escaped: %s", desc, (unsigned long)k, (unsigned long)P, e.what());
      }
      faults().armed = false;
      if (tainted()) break;
      uint64_t progress = events().total() + aledger().requests - ev0;
      if (!faults().fired) {
        // fewer fault points than in the dry run: nothing to check for this k (cannot happen for deterministic ops)
        destroy(b);
        destroy(o);
        continue;
      }
      if (!threw) {
        violation(P09, "%s, fault %lu of %lu: the injected exception did not propagate to the caller", desc, (unsigned long)k, (unsigned long)P);
        break;
      }
      feature(alloc_fault ? FF_ALLOC_FAULT : FF_ELEM_FAULT);
      if (progress > 1) feature(FF_AFTER_PROGRESS);
      char where[320];
      snprintf(where, sizeof where, "%s, fault %lu of %lu (%s)", desc, (unsigned long)k, (unsigned long)P, alloc_fault ? "allocator" : "element");
      // ---- basic guarantee
      V &c = *b.c;
      std::vector<int> now, onow;
      if (static_cast<long>(c.size()) > static_cast<long>(c.capacity())) violation(P09, "%s: size() > capacity() after the exception", where);
      if (!tainted() && !read_values(c, now)) violation(P09 | P02, "%s: a visible element is moved-from or not alive after the exception", where);
      if (!tainted() && !read_values(*o.c, onow)) violation(P09 | P02, "%s: a visible element of the other operand is moved-from or not alive", where);
      if (!tainted()) {
        size_t expect_live = now.size() + onow.size();
        if (cells().live != expect_live)
          violation(P09 | P02, "%s: %u element value(s) alive but %zu visible: %s", where, cells().live, expect_live, cells().live > expect_live ? "leak" : "double destroy");
        if ((std::is_same<E, NTR>::value || std::is_same<E, CO>::value) && shells().live != expect_live)
          violation(P09 | P02, "%s: %u element object(s) alive but %zu visible", where, shells().live, expect_live);
      }
      // ---- strong guarantee
      if (!tainted() && strong_op(sc, pos, s0)) {
        feature(FF_STRONG_OP);
        if (now != before) violation(P09, "%s: strong guarantee: contents changed (size %zu -> %zu)", where, before.size(), now.size());
      }
      if (!tainted() && sc.op == 18 && onow != obefore) violation(P09, "%s: unrelated container changed", where);
      // ---- still usable: follow-up sequence against a model seeded from what is visible now
      if (!tainted()) {
        std::vector<int> m = now;
        try {
          if (static_cast<long>(m.size()) < lim) {
            c.emplace_back(7);
            m.push_back(7);
          }
          if (static_cast<long>(m.size()) < lim) {
            c.insert(c.begin(), ET<E>::make(8));
            m.insert(m.begin(), 8);
          }
          if (!m.empty()) {
            c.erase(c.begin() + static_cast<long>(m.size() / 2));
            m.erase(m.begin() + static_cast<long>(m.size() / 2));
          }
          std::vector<int> chk;
          if (!read_values(c, chk) || chk != m) violation(P09, "%s: follow-up operations disagree with the model", where);
          c.clear();
          for (int q = 0; q < 3 && q < lim; ++q) c.emplace_back(q);
          if (c.size() != static_cast<ST>(std::min<long>(3, lim))) violation(P09, "%s: refill after clear failed", where);
        } catch (const std::exception &e) {
          violation(P09, "%s: follow-up operation threw %s", where, e.what());
        }
      }
      if (tainted()) break;
      destroy(b);
      destroy(o);
      if (cells().live != 0 || shells().live != 0) violation(P09 | P02, "%s: %u value(s) / %u object(s) alive after destruction", where, cells().live, shells().live);
      if (aledger().outstanding != 0) violation(P09 | P06, "%s: %u block(s) never handed back", where, aledger().outstanding);
    }
    return ctx().failed;
  }

  bool nontrivial() const { return has_feature(FF_AFTER_PROGRESS); }
  // tape entry point: one op = one scenario
  bool run(const Op *ops, size_t n) {
    case_begin();
    bool f = false;
    for (size_t i = 0; i < n && i < 4 && !f && !tainted(); ++i) {
      crash_area_op(static_cast<uint32_t>(i));
      f = run_scenario(decode(ops[i]));
      ++ctx().ops;
    }
    f = ctx().failed;
    case_end(has_feature(FF_AFTER_PROGRESS));
    return f;
  }
};

}  // namespace vf
