// alloc.hpp - allocation ledger, instrumented allocator kinds, malloc hook. C++11-compatible.
#pragma once

#include <cstddef>
#include <cstdint>
#include <cstdlib>
#include <cstring>
#include <new>

#include <amc/allocator.hpp>
#include <amc/type_traits.hpp>

#include "elem.hpp"
#include "vf_core.hpp"

#if defined(__SANITIZE_ADDRESS__)
#define VF_ASAN 1
#elif defined(__has_feature)
#if __has_feature(address_sanitizer)
#define VF_ASAN 1
#endif
#endif

#ifdef VF_ASAN
extern "C" int __sanitizer_install_malloc_and_free_hooks(void (*malloc_hook)(const volatile void *, size_t),
                                                         void (*free_hook)(const volatile void *));
#endif

namespace vf {

struct InjectedBadAlloc : std::bad_alloc {
  const char *what() const noexcept override { return "vf::InjectedBadAlloc"; }
};

// ---- malloc hook: counts every malloc/new of the process (only meaningful in an observation window)
struct MallocStats {
  volatile uint64_t mallocs, frees;
  bool installed;
};
inline MallocStats &mstats() {
  static MallocStats m;
  return m;
}
inline void vf_malloc_hook(const volatile void *, size_t) { ++mstats().mallocs; }
inline void vf_free_hook(const volatile void *) { ++mstats().frees; }
inline void install_malloc_hook() {
#ifdef VF_ASAN
  if (!mstats().installed) mstats().installed = __sanitizer_install_malloc_and_free_hooks(vf_malloc_hook, vf_free_hook) != 0;
#endif
}

// ---- allocation ledger -------------------------------------------------------------
struct AllocEntry {
  const void *p;
  size_t count;     // element count (or bytes for the basic allocator)
  uint32_t esize;
  uint8_t kind;
  uint8_t live;     // 1 live, 2 freed
};
struct AllocLedger {
  static const uint32_t CAP = 1u << 15;
  AllocEntry e[CAP];
  uint32_t touched[CAP];
  uint32_t ntouched;
  uint32_t outstanding;
  // counters
  uint64_t requests;     // allocate + reallocate calls (what "allocator request" means in C05/C18)
  uint64_t allocs, reallocs, deallocs;
  uint64_t realloc_elems;   // elements carried over by reallocate (relocations for TR types)
  uint64_t last_realloc_live, last_realloc_old;
  bool realloc_seen;
};
inline AllocLedger &aledger() {
  static AllocLedger l;
  return l;
}
inline void aledger_reset() {
  AllocLedger &l = aledger();
  for (uint32_t i = 0; i < l.ntouched; ++i) {
    AllocEntry &x = l.e[l.touched[i]];
    // blocks still outstanding here belong to an abandoned (failed) case: release them to keep memory bounded
    if (x.live == 1 && x.p) free(const_cast<void *>(x.p));
    x.p = 0;
    x.live = 0;
  }
  l.ntouched = 0;
  l.outstanding = 0;
  l.requests = l.allocs = l.reallocs = l.deallocs = l.realloc_elems = 0;
  l.last_realloc_live = l.last_realloc_old = 0;
  l.realloc_seen = false;
}
inline uint32_t aledger_hash(const void *p) {
  uint64_t x = reinterpret_cast<uintptr_t>(p) >> 3;
  x *= 0x9E3779B97F4A7C15ull;
  return static_cast<uint32_t>(x >> 40) & (AllocLedger::CAP - 1);
}
inline AllocEntry *aledger_find(const void *p) {
  AllocLedger &l = aledger();
  uint32_t i = aledger_hash(p);
  for (uint32_t n = 0; n < AllocLedger::CAP; ++n, i = (i + 1) & (AllocLedger::CAP - 1)) {
    if (l.e[i].p == 0) return 0;
    if (l.e[i].p == p) return &l.e[i];
  }
  return 0;
}
inline void aledger_add(const void *p, size_t count, uint32_t esize, uint8_t kind) {
  AllocLedger &l = aledger();
  if (l.ntouched >= AllocLedger::CAP / 2) {
    ctx().resource_skip = true;
    return;
  }
  uint32_t i = aledger_hash(p);
  for (uint32_t n = 0; n < AllocLedger::CAP; ++n, i = (i + 1) & (AllocLedger::CAP - 1)) {
    if (l.e[i].p == 0) {
      l.touched[l.ntouched++] = i;
      break;
    }
    if (l.e[i].p == p) break;  // address reused after a free
  }
  l.e[i].p = p;
  l.e[i].count = count;
  l.e[i].esize = esize;
  l.e[i].kind = kind;
  l.e[i].live = 1;
  ++l.outstanding;
}

inline void alloc_fault_point() {
  FaultState &f = faults();
  if (!f.counting && !f.armed) return;
  uint64_t k = f.passed++;
  if (f.armed && !f.fired && k == f.target) {
    f.fired = true;
    throw InjectedBadAlloc();
  }
}

inline void *ledger_allocate(size_t count, uint32_t esize, uint8_t kind) {
  AllocLedger &l = aledger();
  ++l.requests;
  ++l.allocs;
  alloc_fault_point();
  size_t bytes = count * esize;
  void *p = malloc(bytes ? bytes : 1);
  if (!p) throw std::bad_alloc();
  aledger_add(p, count, esize, kind);
  return p;
}
// returns true when the block may be released
inline bool ledger_check_release(const void *p, size_t count, uint32_t esize, uint8_t kind, const char *who) {
  if (p == 0) {
    if (count != 0) violation(P06, "%s: null pointer handed back with count %zu", who, count);
    return false;
  }
  AllocEntry *x = aledger_find(p);
  if (!x) {
    if (!ctx().resource_skip) violation(P06, "%s: pointer %p was never obtained from the allocator", who, p);
    return false;
  }
  if (x->live != 1) {
    violation(P06, "%s: block of %zu elements handed back twice", who, x->count);
    return false;
  }
  if (x->kind != kind || x->esize != esize)
    violation(P06, "%s: block handed back to a different allocator kind/type", who);
  else if (x->count != count)
    violation(P06, "%s: block obtained with count %zu handed back with count %zu", who, x->count, count);
  x->live = 2;
  --aledger().outstanding;
  return true;
}
inline void ledger_deallocate(void *p, size_t count, uint32_t esize, uint8_t kind) {
  ++aledger().deallocs;
  if (ledger_check_release(p, count, esize, kind, "deallocate")) free(p);
}

// ---- A_std: minimal std-like allocator, no reallocate, exact-count check --------------------
template <class T>
struct AStd {
  typedef T value_type;
  typedef T *pointer;
  typedef const T *const_pointer;
  typedef T &reference;
  typedef const T &const_reference;
  typedef std::size_t size_type;
  typedef std::ptrdiff_t difference_type;
  template <class U>
  struct rebind {
    typedef AStd<U> other;
  };
  AStd() noexcept {}
  template <class U>
  AStd(const AStd<U> &) noexcept {}
  T *allocate(std::size_t n) { return static_cast<T *>(ledger_allocate(n, sizeof(T), 1)); }
  void deallocate(T *p, std::size_t n) noexcept { ledger_deallocate(p, n, sizeof(T), 1); }
  template <class U>
  bool operator==(const AStd<U> &) const noexcept { return true; }
  template <class U>
  bool operator!=(const AStd<U> &) const noexcept { return false; }
};

// ---- A_re: std-like allocator offering the optional 4-argument reallocate -------------------
template <class T>
struct ARe {
  typedef T value_type;
  typedef T *pointer;
  typedef const T *const_pointer;
  typedef T &reference;
  typedef const T &const_reference;
  typedef std::size_t size_type;
  typedef std::ptrdiff_t difference_type;
  template <class U>
  struct rebind {
    typedef ARe<U> other;
  };
  ARe() noexcept {}
  template <class U>
  ARe(const ARe<U> &) noexcept {}
  T *allocate(std::size_t n) { return static_cast<T *>(ledger_allocate(n, sizeof(T), 2)); }
  void deallocate(T *p, std::size_t n) noexcept { ledger_deallocate(p, n, sizeof(T), 2); }
  T *reallocate(T *p, std::size_t oldCapa, std::size_t newCapa, std::size_t nLive) {
    AllocLedger &l = aledger();
    ++l.requests;
    ++l.reallocs;
    l.last_realloc_live = nLive;
    l.last_realloc_old = oldCapa;
    l.realloc_seen = true;
    if (!amc::is_trivially_relocatable<T>::value)
      violation(P06 | P02, "reallocate used for an element type that is not trivially relocatable");
    if (nLive > oldCapa || nLive > newCapa)
      violation(P06, "reallocate: live-element count %zu exceeds old (%zu) or new (%zu) capacity", nLive, oldCapa, newCapa);
    alloc_fault_point();
    size_t bytes = newCapa * sizeof(T);
    void *np = malloc(bytes ? bytes : 1);
    if (!np) throw std::bad_alloc();
    if (p != 0) {
      size_t ncopy = nLive;
      if (ncopy > oldCapa) ncopy = oldCapa;
      if (ncopy > newCapa) ncopy = newCapa;
      AllocEntry *x = aledger_find(p);
      if (x && x->live == 1 && ncopy > x->count) ncopy = x->count;  // never read beyond the real block
      if (x && x->live == 1) memcpy(np, static_cast<void *>(p), ncopy * sizeof(T));
      l.realloc_elems += ncopy;
      if (ledger_check_release(p, oldCapa, sizeof(T), 2, "reallocate")) free(p);
    } else if (oldCapa != 0) {
      violation(P06, "reallocate: null block with old capacity %zu", oldCapa);
    }
    aledger_add(np, newCapa, sizeof(T), 2);
    return static_cast<T *>(np);
  }
  template <class U>
  bool operator==(const ARe<U> &) const noexcept { return true; }
  template <class U>
  bool operator!=(const ARe<U> &) const noexcept { return false; }
};

// ---- A_amc: the real amc::BasicAllocatorWrapper over an instrumented basic allocator -----------
struct LedgerBasic {
  void *allocate(size_t bytes) { return ledger_allocate(bytes, 1, 3); }
  void *reallocate(void *p, size_t oldBytes, size_t newBytes) {
    AllocLedger &l = aledger();
    ++l.requests;
    ++l.reallocs;
    l.realloc_seen = true;
    alloc_fault_point();
    void *np = malloc(newBytes ? newBytes : 1);
    if (!np) throw std::bad_alloc();
    if (p != 0) {
      size_t ncopy = oldBytes < newBytes ? oldBytes : newBytes;
      AllocEntry *x = aledger_find(p);
      if (x && x->live == 1 && ncopy > x->count) ncopy = x->count;
      if (x && x->live == 1) memcpy(np, p, ncopy);
      l.realloc_elems += ncopy;  // bytes here
      if (ledger_check_release(p, oldBytes, 1, 3, "reallocate")) free(p);
    } else if (oldBytes != 0) {
      violation(P06, "reallocate: null block with old size %zu", oldBytes);
    }
    aledger_add(np, newBytes, 1, 3);
    return np;
  }
  void deallocate(void *p, size_t bytes) { ledger_deallocate(p, bytes, 1, 3); }
};
template <class T>
using AAmc = amc::BasicAllocatorWrapper<T, LedgerBasic>;

// ---- traits: is this allocator on the ledger? -----------------------------------------------
template <class A>
struct alloc_on_ledger : std::false_type {};
template <class T>
struct alloc_on_ledger<AStd<T> > : std::true_type {};
template <class T>
struct alloc_on_ledger<ARe<T> > : std::true_type {};
template <class T>
struct alloc_on_ledger<amc::BasicAllocatorWrapper<T, LedgerBasic> > : std::true_type {};

}  // namespace vf
