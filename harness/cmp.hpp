// cmp.hpp - comparators for the set interpreters and their std::set<int> model counterpart. C++11-compatible.
#pragma once

#include <functional>

#include "elem.hpp"

namespace vf {

// model comparator over ints; mirrors every comparator below
struct ModelCmp {
  bool desc;
  int div;
  ModelCmp() : desc(false), div(1) {}
  ModelCmp(bool d, int v) : desc(d), div(v) {}
  bool operator()(int a, int b) const {
    int x = a / div, y = b / div;
    return desc ? y < x : x < y;
  }
};

struct CmpCounter {
  static unsigned long long &calls() {
    static unsigned long long c;
    return c;
  }
};

template <class E>
struct Coarse {  // stateless, coarser than equality: classes of 4 consecutive values
  bool operator()(const E &a, const E &b) const {
    ++CmpCounter::calls();
    return val_of(a) / 4 < val_of(b) / 4;
  }
};

template <class E>
struct Stateful {  // direction flag + divisor chosen per set
  bool desc;
  int div;
  Stateful() : desc(false), div(1) {}
  Stateful(bool d, int v) : desc(d), div(v) {}
  bool operator()(const E &a, const E &b) const {
    ++CmpCounter::calls();
    int x = val_of(a) / div, y = val_of(b) / div;
    return desc ? y < x : x < y;
  }
};

template <class E>
struct CLess {  // counting less
  bool operator()(const E &a, const E &b) const {
    ++CmpCounter::calls();
    return val_of(a) < val_of(b);
  }
};
template <class E>
struct CGreater {
  bool operator()(const E &a, const E &b) const {
    ++CmpCounter::calls();
    return val_of(a) > val_of(b);
  }
};

// transparent comparator: heterogeneous lookups with long / double keys
template <class E>
struct TLess {
  typedef void is_transparent;
  static double key(const E &e) { return val_of(e); }
  static double key(long v) { return static_cast<double>(v); }
  static double key(double v) { return v; }
  template <class A, class B>
  bool operator()(const A &a, const B &b) const {
    ++CmpCounter::calls();
    return key(a) < key(b);
  }
  // a heterogeneous key that is coarser than the elements: a bucket of 4 consecutive values matches a whole run
  struct Bucket {
    int b;
  };
  bool operator()(const E &a, const Bucket &k) const { return val_of(a) / 4 < k.b; }
  bool operator()(const Bucket &k, const E &a) const { return k.b < val_of(a) / 4; }
  // same with a chosen width (many elements equivalent to one key)
  struct Wide {
    int b, width;
  };
  bool operator()(const E &a, const Wide &k) const {
    ++CmpCounter::calls();
    return val_of(a) / k.width < k.b;
  }
  bool operator()(const Wide &k, const E &a) const {
    ++CmpCounter::calls();
    return k.b < val_of(a) / k.width;
  }
};

// traits: how to build a comparator from a tape byte and how to model it
template <class Cmp>
struct CmpTraits;
template <class E>
struct CmpTraits<std::less<E> > {
  static const bool stateful = false, transparent = false;
  static std::less<E> make(int) { return std::less<E>(); }
  static ModelCmp model(const std::less<E> &) { return ModelCmp(false, 1); }
  static const char *name() { return "less"; }
};
template <class E>
struct CmpTraits<std::greater<E> > {
  static const bool stateful = false, transparent = false;
  static std::greater<E> make(int) { return std::greater<E>(); }
  static ModelCmp model(const std::greater<E> &) { return ModelCmp(true, 1); }
  static const char *name() { return "greater"; }
};
template <class E>
struct CmpTraits<CLess<E> > {
  static const bool stateful = false, transparent = false;
  static CLess<E> make(int) { return CLess<E>(); }
  static ModelCmp model(const CLess<E> &) { return ModelCmp(false, 1); }
  static const char *name() { return "less(counting)"; }
};
template <class E>
struct CmpTraits<CGreater<E> > {
  static const bool stateful = false, transparent = false;
  static CGreater<E> make(int) { return CGreater<E>(); }
  static ModelCmp model(const CGreater<E> &) { return ModelCmp(true, 1); }
  static const char *name() { return "greater(counting)"; }
};
template <class E>
struct CmpTraits<Coarse<E> > {
  static const bool stateful = false, transparent = false;
  static Coarse<E> make(int) { return Coarse<E>(); }
  static ModelCmp model(const Coarse<E> &) { return ModelCmp(false, 4); }
  static const char *name() { return "coarse"; }
};
template <class E>
struct CmpTraits<Stateful<E> > {
  static const bool stateful = true, transparent = false;
  static Stateful<E> make(int b) { return Stateful<E>((b & 1) != 0, 1 + ((b >> 1) % 3)); }
  static ModelCmp model(const Stateful<E> &c) { return ModelCmp(c.desc, c.div); }
  static const char *name() { return "stateful"; }
};
template <class E>
struct CmpTraits<TLess<E> > {
  static const bool stateful = false, transparent = true;
  static TLess<E> make(int) { return TLess<E>(); }
  static ModelCmp model(const TLess<E> &) { return ModelCmp(false, 1); }
  static const char *name() { return "transparent"; }
};

}  // namespace vf
