// iters.hpp - range sources of every iterator category. C++11-compatible.
#pragma once

#include <deque>
#include <forward_list>
#include <iterator>
#include <list>
#include <vector>

#include "elem.hpp"

namespace vf {

enum RangeKind { RK_PTR = 0, RK_CPTR, RK_DEQUE, RK_LIST, RK_FWD, RK_INPUT, RK_MOVE, RK_REVERSE, RK_COUNT };
inline const char *range_kind_name(int k) {
  static const char *n[] = {"T*", "const T*", "deque", "list", "forward_list", "single-pass", "move_iterator", "reverse_iterator"};
  return (k >= 0 && k < RK_COUNT) ? n[k] : "?";
}

// single-pass input iterator: all copies share one read position, like istream_iterator
template <class E>
struct InputState {
  const E *data;
  size_t n;
  size_t pos;
};
template <class E>
struct InputIt {
  typedef std::input_iterator_tag iterator_category;
  typedef E value_type;
  typedef std::ptrdiff_t difference_type;
  typedef const E *pointer;
  typedef const E &reference;
  InputState<E> *st;
  bool is_end;
  InputIt() : st(0), is_end(true) {}
  InputIt(InputState<E> *s, bool e) : st(s), is_end(e) {}
  bool at_end() const { return is_end || st == 0 || st->pos >= st->n; }
  reference operator*() const { return st->data[st->pos]; }
  pointer operator->() const { return &st->data[st->pos]; }
  InputIt &operator++() {
    ++st->pos;
    return *this;
  }
  InputIt operator++(int) {
    InputIt t(*this);
    ++st->pos;
    return t;
  }
  friend bool operator==(const InputIt &a, const InputIt &b) { return a.at_end() == b.at_end(); }
  friend bool operator!=(const InputIt &a, const InputIt &b) { return a.at_end() != b.at_end(); }
};

// Build a source of kind 'kind' holding E(vals[i]) and call fn(first, last).
// fn is a functor with a templated operator()(It, It). Move-only E only supports RK_MOVE.
template <class E, class Fn>
void with_range_copyable(int kind, const std::vector<int> &vals, Fn &fn) {
  switch (kind) {
    case RK_PTR: {
      std::vector<E> tmp;
      tmp.reserve(vals.size() + 1);
      for (size_t i = 0; i < vals.size(); ++i) tmp.push_back(ET<E>::make(vals[i]));
      E *p = tmp.data();
      fn(p, p + tmp.size());
      break;
    }
    case RK_CPTR: {
      std::vector<E> tmp;
      tmp.reserve(vals.size() + 1);
      for (size_t i = 0; i < vals.size(); ++i) tmp.push_back(ET<E>::make(vals[i]));
      const E *p = tmp.data();
      fn(p, p + tmp.size());
      break;
    }
    case RK_DEQUE: {
      std::deque<E> tmp;
      for (size_t i = 0; i < vals.size(); ++i) tmp.push_back(ET<E>::make(vals[i]));
      fn(tmp.begin(), tmp.end());
      break;
    }
    case RK_LIST: {
      std::list<E> tmp;
      for (size_t i = 0; i < vals.size(); ++i) tmp.push_back(ET<E>::make(vals[i]));
      fn(tmp.begin(), tmp.end());
      break;
    }
    case RK_FWD: {
      std::forward_list<E> tmp;
      for (size_t i = vals.size(); i > 0; --i) tmp.push_front(ET<E>::make(vals[i - 1]));
      fn(tmp.begin(), tmp.end());
      break;
    }
    case RK_INPUT: {
      std::vector<E> tmp;
      tmp.reserve(vals.size() + 1);
      for (size_t i = 0; i < vals.size(); ++i) tmp.push_back(ET<E>::make(vals[i]));
      InputState<E> st;
      st.data = tmp.data();
      st.n = tmp.size();
      st.pos = 0;
      fn(InputIt<E>(&st, false), InputIt<E>(&st, true));
      break;
    }
    case RK_REVERSE: {  // random access but neither a pointer nor contiguous in iteration order
      std::vector<E> tmp;
      tmp.reserve(vals.size() + 1);
      for (size_t i = vals.size(); i > 0; --i) tmp.push_back(ET<E>::make(vals[i - 1]));
      const E *p = tmp.data();
      fn(std::reverse_iterator<const E *>(p + tmp.size()), std::reverse_iterator<const E *>(p));
      break;
    }
    default: {
      std::vector<E> tmp;
      tmp.reserve(vals.size() + 1);
      for (size_t i = 0; i < vals.size(); ++i) tmp.push_back(ET<E>::make(vals[i]));
      E *p = tmp.data();
      fn(std::make_move_iterator(p), std::make_move_iterator(p + tmp.size()));
      break;
    }
  }
}
template <class E, class Fn>
void with_range_moveonly(const std::vector<int> &vals, Fn &fn) {
  std::vector<E> tmp;
  tmp.reserve(vals.size() + 1);
  for (size_t i = 0; i < vals.size(); ++i) tmp.push_back(ET<E>::make(vals[i]));
  E *p = tmp.data();
  fn(std::make_move_iterator(p), std::make_move_iterator(p + tmp.size()));
}

template <class E, class Fn>
typename std::enable_if<ET<E>::copyable>::type with_range(int kind, const std::vector<int> &vals, Fn &fn) {
  with_range_copyable<E>(kind, vals, fn);
}
template <class E, class Fn>
typename std::enable_if<!ET<E>::copyable>::type with_range(int, const std::vector<int> &vals, Fn &fn) {
  with_range_moveonly<E>(vals, fn);
}

}  // namespace vf
