// enum_main.hpp - skeleton for bounded-exhaustive / grid targets. Each case has a textual key; a replay file holds one key.
#pragma once

#include <cstdio>
#include <cstring>
#include <string>
#include <vector>

#include "alloc.hpp"
#include "vf_core.hpp"

namespace vf {

struct EnumState {
  const char *prop;
  const char *stats;
  const char *replay_out;
  const char *crash;
  std::string replay_key;   // when non-empty: run only this case
  bool thorough;
  unsigned long long seed;
  bool stop;                // a failure was found
  std::string fail_key, fail_msg;
  uint64_t evaluations;
  std::string current;
  const char *target;
  unsigned long shard_i, shard_n, counter;
};
inline EnumState &est() {
  static EnumState e;
  return e;
}

inline void enum_init(int argc, char **argv, const char *target) {
  EnumState &e = est();
  e.prop = "C00";
  e.target = target;
  e.seed = 1;
  const char *replay = 0;
  for (int i = 1; i < argc; ++i) {
    std::string s = argv[i];
    const char *nx = (i + 1 < argc) ? argv[i + 1] : "";
    if (s == "--prop") e.prop = nx, ++i;
    else if (s == "--stats") e.stats = nx, ++i;
    else if (s == "--replay-out") e.replay_out = nx, ++i;
    else if (s == "--crash") e.crash = nx, ++i;
    else if (s == "--replay") replay = nx, ++i;
    else if (s == "--seed") e.seed = strtoull(nx, 0, 10), ++i;
    else if (s == "--tier") e.thorough = !strcmp(nx, "thorough"), ++i;
    else if (s == "--shard") { sscanf(nx, "%lu/%lu", &e.shard_i, &e.shard_n); ++i; }
    else if (s == "-v") ctx().verbose = true;
  }
  Ctx &c = ctx();
  c.prop = parse_prop(e.prop);
  c.fatal_mask = 1u << c.prop;
  c.cfg_name = target;
  install_malloc_hook();
  if (e.crash) crash_area_open(e.crash);
  if (replay) {
    FILE *f = fopen(replay, "r");
    char line[2048];
    bool first_line = true;
    while (f && fgets(line, sizeof line, f)) {
      if (first_line) {
        // the header names the seed and the tier the grid was generated with (some grid points are derived from them)
        first_line = false;
        std::string h(line);
        h = h.substr(0, h.find('#'));
        size_t p1 = h.find(" seed=");
        if (p1 != std::string::npos) e.seed = strtoull(h.c_str() + p1 + 6, 0, 10);
        if (h.find(" tier=thorough") != std::string::npos) e.thorough = true;
        if (h.find(" tier=quick") != std::string::npos) e.thorough = false;
      }
      if (!strncmp(line, "case ", 5)) {
        e.replay_key = line + 5;
        while (!e.replay_key.empty() && (e.replay_key[e.replay_key.size() - 1] == '\n' || e.replay_key[e.replay_key.size() - 1] == ' ')) e.replay_key.erase(e.replay_key.size() - 1);
      }
    }
    if (f) fclose(f);
    if (e.replay_key.empty()) {
      fprintf(stderr, "replay file has no 'case <key>' line\n");
      exit(3);
    }
  }
}

// returns false when the case must be skipped (replay of another case, or enumeration already stopped)
inline bool enum_begin(const std::string &key) {
  EnumState &e = est();
  if (e.stop) return false;
  if (!e.replay_key.empty() && e.replay_key != key) return false;
  if (e.replay_key.empty() && e.shard_n > 1 && (e.counter++ % e.shard_n) != e.shard_i) return false;
  e.current = key;
  if (crash_area()) {
    CrashArea *a = crash_area();
    size_t n = key.size() < sizeof a->tape - 1 ? key.size() : sizeof a->tape - 1;
    memcpy(a->tape, key.data(), n);
    a->tape[n] = 0;
    a->len = static_cast<uint32_t>(n);
    a->running = 2;  // 2 = key-style case
  }
  case_begin();
  if (ctx().keep_trace || ctx().verbose) trace("%s", key.c_str());
  return true;
}
inline void enum_end(bool nontrivial) {
  EnumState &e = est();
  Ctx &c = ctx();
  ++e.evaluations;
  uint64_t h = 1469598103934665603ull;
  for (size_t i = 0; i < e.current.size(); ++i) {
    h ^= static_cast<unsigned char>(e.current[i]);
    h *= 1099511628211ull;
  }
  c.trace_hash = h;
  if (c.failed) {
    e.stop = true;
    e.fail_key = e.current;
    e.fail_msg = c.msg;
  }
  case_end(nontrivial);
  if (crash_area()) crash_area()->running = 0;
}

typedef const char *(*enum_feat_fn)(int);

inline int enum_finish(enum_feat_fn fname, const std::string &extra_json) {
  EnumState &e = est();
  Ctx &c = ctx();
  if (!e.replay_key.empty()) {
    if (e.evaluations == 0) {
      printf("VF-REPLAY unknown case key: %s\n", e.replay_key.c_str());
      return 3;
    }
    if (e.stop && !e.fail_key.empty()) {
      printf("VF-REPLAY fail prop=%s target=%s case=%s msg=%s\n", e.prop, e.target, e.fail_key.c_str(), e.fail_msg.c_str());
      return 1;
    }
    printf("VF-REPLAY pass prop=%s target=%s\n", e.prop, e.target);
    return 0;
  }
  if (e.stop) {
    if (e.replay_out) {
      FILE *f = fopen(e.replay_out, "w");
      if (f) {
        fprintf(f, "check=%s config=%s seed=%llu tier=%s  # %s\ncase %s\n", e.prop, e.target, e.seed, e.thorough ? "thorough" : "quick", e.fail_msg.c_str(), e.fail_key.c_str());
        fclose(f);
      }
    }
    printf("VF-FAIL prop=%s cfg=%s nops=1 msg=%s [case %s]\n", e.prop, e.target, e.fail_msg.c_str(), e.fail_key.c_str());
  }
  FILE *f = e.stats ? fopen(e.stats, "w") : stdout;
  if (f) {
    fprintf(f, "{\"cfg\":\"%s\",\"prop\":\"%s\",\"seed\":%llu,\"cases\":%llu,\"ops\":%llu,\"skipped\":0,\"nontrivial\":%llu,\"distinct_nontrivial\":%zu,\"result\":%d,\"fail_msg\":\"%s\",\"malloc_hook\":%s,",
            e.target, e.prop, e.seed, (unsigned long long)e.evaluations, (unsigned long long)e.evaluations, (unsigned long long)c.nontrivial_cases,
            c.distinct ? c.distinct->size() : (size_t)0, e.stop ? 1 : 0, json_escape(e.fail_msg).c_str(), mstats().installed ? "true" : "false");
    fprintf(f, "\"features\":{");
    bool first = true;
    for (int i = 0; i < 64; ++i) {
      const char *n = fname ? fname(i) : 0;
      if (!n) continue;
      fprintf(f, "%s\"%s\":%llu", first ? "" : ",", n, (unsigned long long)c.feat_total[i]);
      first = false;
    }
    fprintf(f, "},\"samples\":[");
    if (c.samples)
      for (size_t i = 0; i < c.samples->size(); ++i) fprintf(f, "%s\"%s\"", i ? "," : "", json_escape((*c.samples)[i]).c_str());
    fprintf(f, "]%s%s}\n", extra_json.empty() ? "" : ",\"extra\":", extra_json.c_str());
    if (e.stats) fclose(f);
  }
  return e.stop ? 1 : 0;
}

}  // namespace vf
