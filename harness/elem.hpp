// elem.hpp - instrumented element types, cell table, shell registry, fault points. C++11-compatible.
#pragma once

#include <cstdint>
#include <cstring>
#include <exception>
#include <type_traits>
#include <utility>

#if __cplusplus >= 202002L
#include <compare>
#endif

#include "vf_core.hpp"

namespace vf {

// ---- fault injection ---------------------------------------------------------------
struct InjectedFault : std::exception {
  const char *what() const noexcept override { return "vf::InjectedFault"; }
};

struct FaultState {
  bool counting;     // count fault points passed
  bool armed;        // throw at point number 'target'
  uint64_t passed;   // points passed since reset
  uint64_t target;
  bool fired;
  bool moves_too;    // C15 only (element type ThrMove)
};
inline FaultState &faults() {
  static FaultState f;
  return f;
}
inline void fault_reset() {
  FaultState &f = faults();
  f.counting = false;
  f.armed = false;
  f.passed = 0;
  f.target = 0;
  f.fired = false;
}
inline void fault_point() {
  FaultState &f = faults();
  if (!f.counting && !f.armed) return;
  uint64_t k = f.passed++;
  if (f.armed && !f.fired && k == f.target) {
    f.fired = true;
    throw InjectedFault();
  }
}

// ---- element events ----------------------------------------------------------------
struct Events {
  uint64_t value_ctor, default_ctor, copy_ctor, move_ctor, copy_asg, move_asg, dtor;
  uint64_t total() const { return value_ctor + default_ctor + copy_ctor + move_ctor + copy_asg + move_asg + dtor; }
  uint64_t relocations() const { return move_ctor + move_asg; }
};
inline Events &events() {
  static Events e;
  return e;
}

// ---- cell table: the "heap" the handles own ---------------------------------------------
struct Cells {
  static const uint32_t CAP = 1u << 20;
  int32_t val[CAP];
  uint8_t st[CAP];  // 0 never used / 1 live / 2 freed
  uint32_t next;    // next id to hand out (ids are never reused inside a case)
  uint32_t live;
};
inline Cells &cells() {
  static Cells c;
  return c;
}
inline void cells_reset() {
  Cells &c = cells();
  if (c.next > 1) memset(c.st, 0, c.next);
  c.next = 1;
  c.live = 0;
}
inline uint32_t cell_new(int v) {
  Cells &c = cells();
  if (c.next == 0) c.next = 1;
  if (c.next >= Cells::CAP) {
    ctx().resource_skip = true;
    return 0;
  }
  uint32_t id = c.next++;
  c.val[id] = v;
  c.st[id] = 1;
  ++c.live;
  return id;
}
inline bool cell_live(uint32_t id) { return id != 0 && id < cells().next && cells().st[id] == 1; }
inline void cell_free(uint32_t id, const char *who) {
  Cells &c = cells();
  if (id == 0) return;
  if (id >= c.next || c.st[id] == 0) {
    if (!ctx().resource_skip) violation(P02, "%s: releases a value that never existed (id %u): raw memory treated as an element", who, id);
    return;
  }
  if (c.st[id] == 2) {
    violation(P02, "%s: element value %d (id %u) destroyed twice (stale bitwise duplicate destroyed)", who, c.val[id], id);
    return;
  }
  c.st[id] = 2;
  --c.live;
}

// ---- shell registry: addresses of live non-relocatable objects ---------------------------------
struct Shells {
  static const uint32_t CAP = 1u << 16;  // power of two
  const void *key[CAP];
  uint32_t touched[CAP];
  uint32_t ntouched;
  uint32_t live;
};
inline Shells &shells() {
  static Shells s;
  return s;
}
inline void shells_reset() {
  Shells &s = shells();
  for (uint32_t i = 0; i < s.ntouched; ++i) s.key[s.touched[i]] = 0;
  s.ntouched = 0;
  s.live = 0;
}
inline uint32_t shell_hash(const void *p) {
  uint64_t x = reinterpret_cast<uintptr_t>(p);
  x ^= x >> 33;
  x *= 0xff51afd7ed558ccdull;
  x ^= x >> 29;
  return static_cast<uint32_t>(x) & (Shells::CAP - 1);
}
static const void *const kTomb = reinterpret_cast<const void *>(1);
inline bool shell_present(const void *p) {
  Shells &s = shells();
  uint32_t i = shell_hash(p);
  for (uint32_t n = 0; n < Shells::CAP; ++n, i = (i + 1) & (Shells::CAP - 1)) {
    if (s.key[i] == 0) return false;
    if (s.key[i] == p) return true;
  }
  return false;
}
inline bool shell_add(const void *p) {  // false if already present
  Shells &s = shells();
  if (s.ntouched >= Shells::CAP / 2) {
    ctx().resource_skip = true;
    return true;
  }
  uint32_t i = shell_hash(p);
  int tomb = -1;
  for (uint32_t n = 0; n < Shells::CAP; ++n, i = (i + 1) & (Shells::CAP - 1)) {
    if (s.key[i] == 0) break;
    if (s.key[i] == p) return false;
    if (s.key[i] == kTomb && tomb < 0) tomb = static_cast<int>(i);
  }
  if (tomb >= 0)
    i = static_cast<uint32_t>(tomb);
  else
    s.touched[s.ntouched++] = i;
  s.key[i] = p;
  ++s.live;
  return true;
}
inline bool shell_remove(const void *p) {  // false if absent
  Shells &s = shells();
  uint32_t i = shell_hash(p);
  for (uint32_t n = 0; n < Shells::CAP; ++n, i = (i + 1) & (Shells::CAP - 1)) {
    if (s.key[i] == 0) return false;
    if (s.key[i] == p) {
      s.key[i] = kTomb;
      --s.live;
      return true;
    }
  }
  return false;
}

inline void ledgers_reset() {
  cells_reset();
  shells_reset();
  fault_reset();
  memset(&events(), 0, sizeof(Events));
}

// ---- Handle<Shell, DeclTR>: unique_ptr-like element whose value lives in the cell table ----------
static const uint32_t kLiveMagic = 0x5EA1ED01u;
static const uint32_t kDeadMagic = 0xDEADC0DEu;

template <bool Shell>
struct SelfPart {
  const void *self;
};
template <>
struct SelfPart<false> {};

template <bool Shell, bool DeclTR>
class Handle : private SelfPart<Shell> {
 public:
  typedef std::integral_constant<bool, DeclTR> trivially_relocatable;

  Handle() : _id(0), _magic(kLiveMagic) {
    born("default ctor");
    fault_point_guarded();
    _id = cell_new(0);
    ++events().default_ctor;
  }
  explicit Handle(int v) : _id(0), _magic(kLiveMagic) {
    born("value ctor");
    fault_point_guarded();
    _id = cell_new(v);
    ++events().value_ctor;
  }
  Handle(const Handle &o) : _id(0), _magic(kLiveMagic) {
    born("copy ctor");
    int v = o.val_for("copy ctor source");
    fault_point_guarded();
    _id = cell_new(v);
    ++events().copy_ctor;
  }
  Handle(Handle &&o) noexcept : _id(0), _magic(kLiveMagic) {
    born("move ctor");
    o.check_shell("move ctor source");
    _id = o._id;
    if (o._id != 0 && !cell_live(o._id)) (void)o.val_for("move ctor source");
    o._id = 0;
    ++events().move_ctor;
  }
  Handle &operator=(const Handle &o) {
    check_shell("copy assignment target");
    int v = o.val_for("copy assignment source");
    fault_point();
    if (_id == 0) {
      _id = cell_new(v);
    } else if (cell_live(_id)) {
      cells().val[_id] = v;
    } else {
      violation(P02, "copy assignment onto an element whose value is not alive (id %u)", _id);
    }
    ++events().copy_asg;
    return *this;
  }
  Handle &operator=(Handle &&o) noexcept {
    check_shell("move assignment target");
    o.check_shell("move assignment source");
    ++events().move_asg;
    if (this == &o) {
      // Assigning a value-holding element onto itself is what the property forbids for non relocatable types;
      // a self move of an already moved-from shell (std::swap(x, x) reached through a legal v.swap(v)) is fine.
      if (!DeclTR && _id != 0) {
        violation(P02 | PSOFT, "element holding value %d is move-assigned onto itself", peek());
        // like many real types (a std::string beyond its small buffer), a self move assignment loses the value
        cell_free(_id, "self move assignment");
        _id = 0;
      }
      return *this;
    }
    if (o._id != 0 && !cell_live(o._id)) (void)o.val_for("move assignment source");
    if (_id != 0) cell_free(_id, "move assignment target");
    _id = o._id;
    o._id = 0;
    return *this;
  }
  ~Handle() {
    ++events().dtor;
    if (_magic != kLiveMagic) {
      if (_magic == kDeadMagic)
        violation(P02, "destructor runs on an element that was already destroyed");
      else if (!ctx().resource_skip)
        violation(P02, "destructor runs on raw memory (no element was constructed here)");
      return;
    }
    died();
    if (_id != 0) cell_free(_id, "destructor");
    _magic = kDeadMagic;
    _id = 0;
  }

  // value access used by comparisons, the harness and comparators
  int val() const { return val_for("read"); }
  bool is_null() const { return _magic == kLiveMagic && _id == 0; }
  bool magic_ok() const { return _magic == kLiveMagic; }
  uint32_t id() const { return _id; }

  friend bool operator==(const Handle &a, const Handle &b) { return a.val() == b.val(); }
  friend bool operator!=(const Handle &a, const Handle &b) { return a.val() != b.val(); }
#if __cplusplus >= 202002L
  friend std::strong_ordering operator<=>(const Handle &a, const Handle &b) { return a.val() <=> b.val(); }
#else
  friend bool operator<(const Handle &a, const Handle &b) { return a.val() < b.val(); }
  friend bool operator>(const Handle &a, const Handle &b) { return a.val() > b.val(); }
  friend bool operator<=(const Handle &a, const Handle &b) { return a.val() <= b.val(); }
  friend bool operator>=(const Handle &a, const Handle &b) { return a.val() >= b.val(); }
#endif

 private:
  int peek() const { return cell_live(_id) ? cells().val[_id] : -1; }

  int val_for(const char *who) const {
    if (_magic != kLiveMagic) {
      if (!ctx().resource_skip)
        violation(P02, "%s: element used outside its lifetime (%s)", who,
                  _magic == kDeadMagic ? "already destroyed" : "raw memory");
      return -1;
    }
    check_shell(who);
    if (_id == 0) {
      violation(P02 | PSOFT, "%s: element is in a moved-from state", who);
      return -1;
    }
    if (!cell_live(_id)) {
      if (!ctx().resource_skip) violation(P02, "%s: element refers to a value that was already released (id %u)", who, _id);
      return -1;
    }
    return cells().val[_id];
  }

  void fault_point_guarded() {
    // a throwing constructor must leave no shell registered
    try {
      fault_point();
    } catch (...) {
      died();
      _magic = kDeadMagic;
      throw;
    }
  }

  template <bool S = Shell>
  typename std::enable_if<S>::type born(const char *who) {
    this->self = this;
    if (!shell_add(this)) violation(P02, "%s: constructs over an element that is still alive at the same address", who);
  }
  template <bool S = Shell>
  typename std::enable_if<!S>::type born(const char *) {}

  template <bool S = Shell>
  typename std::enable_if<S>::type died() {
    if (this->self != this)
      violation(P02, "destructor: non relocatable element was moved by a raw byte copy (self pointer broken)");
    else if (!shell_remove(this))
      violation(P02, "destructor: element at this address is not alive (destroyed twice or never constructed)");
  }
  template <bool S = Shell>
  typename std::enable_if<!S>::type died() {}

  template <bool S = Shell>
  typename std::enable_if<S>::type check_shell(const char *who) const {
    if (_magic == kLiveMagic && this->self != this)
      violation(P02, "%s: non relocatable element was moved by a raw byte copy (self pointer broken)", who);
  }
  template <bool S = Shell>
  typename std::enable_if<!S>::type check_shell(const char *) const {}

  uint32_t _id;
  uint32_t _magic;
};

typedef Handle<false, true> TR;    // declares itself trivially relocatable, not trivially copyable
typedef Handle<true, false> NTR;   // not relocatable: self pointer + address registry

// move-only non relocatable element
class MO {
 public:
  MO() : h() {}
  explicit MO(int v) : h(v) {}
  MO(const MO &) = delete;
  MO &operator=(const MO &) = delete;
  MO(MO &&o) noexcept : h(std::move(o.h)) {}
  MO &operator=(MO &&o) noexcept {
    h = std::move(o.h);
    return *this;
  }
  int val() const { return h.val(); }
  bool is_null() const { return h.is_null(); }
  bool magic_ok() const { return h.magic_ok(); }
  uint32_t id() const { return h.id(); }
  friend bool operator==(const MO &a, const MO &b) { return a.val() == b.val(); }
  friend bool operator!=(const MO &a, const MO &b) { return a.val() != b.val(); }
#if __cplusplus >= 202002L
  friend std::strong_ordering operator<=>(const MO &a, const MO &b) { return a.val() <=> b.val(); }
#else
  friend bool operator<(const MO &a, const MO &b) { return a.val() < b.val(); }
  friend bool operator>(const MO &a, const MO &b) { return a.val() > b.val(); }
  friend bool operator<=(const MO &a, const MO &b) { return a.val() <= b.val(); }
  friend bool operator>=(const MO &a, const MO &b) { return a.val() >= b.val(); }
#endif
 private:
  NTR h;
};

// copy-only non relocatable element: no move operations at all, "moving" it is a copy that can throw
class CO {
 public:
  CO() : h() {}
  explicit CO(int v) : h(v) {}
  CO(const CO &o) : h(o.h) {}
  CO &operator=(const CO &o) {
    h = o.h;
    return *this;
  }
  int val() const { return h.val(); }
  bool is_null() const { return h.is_null(); }
  bool magic_ok() const { return h.magic_ok(); }
  uint32_t id() const { return h.id(); }
  friend bool operator==(const CO &a, const CO &b) { return a.val() == b.val(); }
  friend bool operator!=(const CO &a, const CO &b) { return a.val() != b.val(); }
#if __cplusplus >= 202002L
  friend std::strong_ordering operator<=>(const CO &a, const CO &b) { return a.val() <=> b.val(); }
#else
  friend bool operator<(const CO &a, const CO &b) { return a.val() < b.val(); }
  friend bool operator>(const CO &a, const CO &b) { return a.val() > b.val(); }
  friend bool operator<=(const CO &a, const CO &b) { return a.val() <= b.val(); }
  friend bool operator>=(const CO &a, const CO &b) { return a.val() >= b.val(); }
#endif
 private:
  NTR h;
};

// ---- TC<Bytes, Align>: trivially copyable, non trivial (user-provided constructors) -------------
template <int B, int A>
struct TC {
  alignas(A) unsigned char b[B];
  TC() { set(0); }
  explicit TC(int v) { set(v); }
  void set(int v) {
    b[0] = static_cast<unsigned char>(v & 0xff);
    if (B > 1) b[1] = static_cast<unsigned char>((v >> 8) & 0xff);
    for (int i = 2; i < B; ++i) b[i] = static_cast<unsigned char>((v * 37 + i * 11 + 5) & 0xff);
  }
  int val() const {
    int v = b[0] | (B > 1 ? (b[1] << 8) : 0);
    for (int i = 2; i < B; ++i)
      if (b[i] != static_cast<unsigned char>((v * 37 + i * 11 + 5) & 0xff)) {
        if (!ctx().resource_skip) violation(P01 | P02, "trivially copyable element is torn or read from raw memory");
        return -1;
      }
    return v;
  }
  friend bool operator==(const TC &x, const TC &y) { return x.val() == y.val(); }
  friend bool operator!=(const TC &x, const TC &y) { return x.val() != y.val(); }
#if __cplusplus >= 202002L
  friend std::strong_ordering operator<=>(const TC &x, const TC &y) { return x.val() <=> y.val(); }
#else
  friend bool operator<(const TC &x, const TC &y) { return x.val() < y.val(); }
  friend bool operator>(const TC &x, const TC &y) { return x.val() > y.val(); }
  friend bool operator<=(const TC &x, const TC &y) { return x.val() <= y.val(); }
  friend bool operator>=(const TC &x, const TC &y) { return x.val() >= y.val(); }
#endif
};

// ---- uniform access ----------------------------------------------------------------------
template <class E>
struct ET {  // generic: class types with val()
  static const bool tracked = true;  // has a cell id
  static const bool copyable = std::is_copy_constructible<E>::value;
  enum { maxval = 30000 };
  static E make(int v) { return E(v); }
  static int val(const E &e) { return e.val(); }
  static uint32_t id(const E &e) { return e.id(); }
  static bool readable(const E &e) { return e.magic_ok() && !e.is_null(); }
  static bool magic_ok(const E &e) { return e.magic_ok(); }
};
template <int B, int A>
struct ET<TC<B, A> > {
  static const bool tracked = false;
  static const bool copyable = true;
  enum { maxval = (B > 1 ? 30000 : 255) };
  static TC<B, A> make(int v) { return TC<B, A>(v); }
  static int val(const TC<B, A> &e) { return e.val(); }
  static uint32_t id(const TC<B, A> &e) { return static_cast<uint32_t>(e.val()); }
  static bool readable(const TC<B, A> &) { return true; }
  static bool magic_ok(const TC<B, A> &) { return true; }
};
#define VF_ET_ARITH(T, MAXV)                                               \
  template <>                                                              \
  struct ET<T> {                                                           \
    static const bool tracked = false;                                     \
    static const bool copyable = true;                                     \
    enum { maxval = MAXV };                                            \
    static T make(int v) { return static_cast<T>(v); }                     \
    static int val(const T &e) { return static_cast<int>(e); }             \
    static uint32_t id(const T &e) { return static_cast<uint32_t>(e); }    \
    static bool readable(const T &) { return true; }                       \
    static bool magic_ok(const T &) { return true; }                       \
  };
VF_ET_ARITH(int32_t, 30000)
VF_ET_ARITH(uint8_t, 255)
VF_ET_ARITH(int64_t, 30000)
VF_ET_ARITH(int16_t, 30000)
VF_ET_ARITH(uint16_t, 30000)
VF_ET_ARITH(char, 127)

template <class E>
inline int val_of(const E &e) {
  return ET<E>::val(e);
}

}  // namespace vf
