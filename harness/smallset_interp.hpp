// smallset_interp.hpp - tape interpreter for amc::SmallSet against std::set<int, ModelCmp> (C04, C11; C02 C05 C06 C14 ride on it).
// C++17 and later only (SmallSet needs std::variant).
#pragma once

#include <algorithm>
#include <set>
#include <string>
#include <vector>

#include <amc/flatset.hpp>
#include <amc/smallset.hpp>
#include <amc/smallvector.hpp>
#include <amc/vector.hpp>

#include "alloc.hpp"
#include "cmp.hpp"
#include "elem.hpp"
#include "flatset_interp.hpp"  // feature names
#include "iters.hpp"
#include "tape.hpp"
#include "vf_core.hpp"

namespace vf {

static const int kSmallSetNumOps = 31;

template <class X>
struct IsFlatSetT : std::false_type {};
template <class T, class C, class A, class V>
struct IsFlatSetT<amc::FlatSet<T, C, A, V> > : std::true_type {};

template <class X>
struct IsStdVecFlatSetT : std::false_type {};
template <class T, class C, class A, class E2, class A2>
struct IsStdVecFlatSetT<amc::FlatSet<T, C, A, std::vector<E2, A2> > > : std::true_type {};

template <class X>
struct SmallSetN;
template <class T, uintmax_t N, class C, class A, class ST>
struct SmallSetN<amc::SmallSet<T, N, C, A, ST> > {
  static const long value = static_cast<long>(N);
  typedef ST set_type;
  static const bool flat = std::is_same<typename amc::SmallSet<T, N, C, A, ST>::iterator, const T *>::value;
  // extract(const_iterator) is absent (does not compile) for every FlatSet-backed SmallSet of the pinned tree: with pointer iterators
  // SmallSet has no toVecIt, with class-type iterators (std::vector-backed FlatSet) FlatSet::extract(const_iterator) const_casts an iterator
  static const bool no_extract_pos = flat || IsFlatSetT<ST>::value;
  // libstdc++'s vector::insert(range) leaves moved-from elements behind after a throwing copy (its own, weaker guarantee): a SmallSet whose
  // backing FlatSet sits on std::vector is not put under injected faults (same rule as in flatset_ops.inc)
  static const bool backing_is_stdvec = IsStdVecFlatSetT<ST>::value;
};

template <class S, class SB>
class SmallSetInterp {
 public:
  typedef typename S::value_type E;
  typedef typename S::key_compare Cmp;
  typedef typename SB::key_compare CmpB;
  typedef typename S::allocator_type A;
  typedef std::set<int, ModelCmp> Model;
  static const int K = 3, KB = 2;
  static const long N = SmallSetN<S>::value;
  static const int KEYS = N > 12 ? 32 : 16;  // key domain: large enough to fill the inline storage of the big configurations
  static const long NB = SmallSetN<SB>::value;
  static const bool FLAT = SmallSetN<S>::flat;
  static const bool NO_EXTRACT_POS = SmallSetN<S>::no_extract_pos;
  static const bool BACKING_STDVEC = SmallSetN<S>::backing_is_stdvec;
  static const bool COPYABLE = ET<E>::copyable;

  struct Slot {
    S *c;
    void *mem;
    Model *m;
    bool flag;  // C05: has never held more than N elements (inherited through copy/move/swap)
    bool was_large;
    bool drained;
    int muts_since_reloc;
  };
  const char *cfgname;
  bool relocate_enabled;
  Slot s[K];
  SB *sib[KB];
  Model *sibm[KB];
  bool sibflag[KB];
  typename S::node_type *node;
  bool node_has;
  int node_val;
  uint64_t w_req0, w_mal0, w_dreq, w_dmal;
  bool w_threw;

  explicit SmallSetInterp(const char *name) : cfgname(name), relocate_enabled(false) {
    for (int i = 0; i < K; ++i) s[i].c = 0, s[i].mem = 0, s[i].m = 0;
    for (int i = 0; i < KB; ++i) sib[i] = 0, sibm[i] = 0;
    node = 0;
  }

  static void *obj_alloc() {
    size_t al = alignof(S) < 16 ? 16 : alignof(S);
    size_t sz = (sizeof(S) + al - 1) / al * al;
    void *p = 0;
    if (posix_memalign(&p, al, sz) != 0) abort();
    memset(p, 0xCD, sz);
    return p;
  }

  void wbegin() {
    w_threw = false;
    w_req0 = aledger().requests;
    w_mal0 = mstats().mallocs;
  }
  void wend() {
    w_dreq = aledger().requests - w_req0;
    w_dmal = mstats().mallocs - w_mal0;
  }
  template <class F>
  void call(F f, const char *what) {
    wbegin();
    try {
      f();
    } catch (const std::exception &e) {
      w_threw = true;
      violation(P04 | P11, "%s: unexpected exception '%s'", what, e.what());
    } catch (...) {
      w_threw = true;
      violation(P04 | P11, "%s: unexpected foreign exception", what);
    }
    wend();
  }
  // C05: no allocation in a window whose operands all still carry the promise (before and after)
  void check_no_alloc(bool before, bool after, const char *what) {
    if (!before || !after || w_threw) return;
    if (alloc_on_ledger<A>::value && w_dreq != 0)
      violation(P05 | PSOFT, "%s: %lu allocator request(s) although no operand ever held more than N elements", what, (unsigned long)w_dreq);
    else if (w_dmal != 0 && mstats().installed)
      violation(P05 | PSOFT, "%s: %lu malloc/new call(s) although no operand ever held more than N elements", what, (unsigned long)w_dmal);
  }

  static int key_of(int b) { return b % KEYS; }
  bool is_inline(int i) const {
    const S &c = *s[i].c;
    if (c.empty()) return true;
    const char *b = static_cast<const char *>(s[i].mem);
    const char *q = reinterpret_cast<const char *>(&*c.begin());
    return q >= b && q < b + sizeof(S);
  }
  // address designated by operator-> (raw pointers designate themselves)
  template <class It>
  static auto arrow(const It &it) -> decltype(it.operator->()) { return it.operator->(); }
  static const E *arrow(const E *p) { return p; }

  typename S::const_iterator it_at(const S &c, long k) const {
    typename S::const_iterator it = c.begin();
    for (long q = 0; q < k; ++q) ++it;
    return it;
  }

  // ---------------------------------------------------------------- checks
  void check_set(int i, const char *what) {
    if (tainted()) return;
    const S &c = *s[i].c;
    const Model &m = *s[i].m;
    if (static_cast<size_t>(c.size()) != m.size()) {
      violation(P04, "%s: size() is %ld, std::set has %zu", what, static_cast<long>(c.size()), m.size());
      return;
    }
    if (c.empty() != m.empty()) violation(P04, "%s: empty() is %d, std::set says %d", what, c.empty(), m.empty());
    ModelCmp mc = CmpTraits<Cmp>::model(c.key_comp()), mm = m.key_comp();
    if (mc.desc != mm.desc || mc.div != mm.div) {
      violation(P04, "%s: key_comp() is not the comparator the set was constructed/assigned with", what);
      return;
    }
    // forward walk: every element exactly once
    std::vector<int> seen;
    size_t steps = 0;
    try {
      for (typename S::const_iterator it = c.begin(); it != c.end() && steps <= m.size() + 1; ++it, ++steps) {
        seen.push_back(val_of(*it));
        if (arrow(it) != std::addressof(*it)) violation(P11, "%s: iterator operator-> does not designate the element operator* designates", what);
      }
    } catch (const std::exception &e) {
      violation(P04 | P11, "%s: walking begin()->end() threw '%s'", what, e.what());
      return;
    }
    if (tainted()) return;
    std::vector<int> sorted(seen);
    std::sort(sorted.begin(), sorted.end(), mm);
    std::vector<int> expect(m.begin(), m.end());
    if (sorted != expect) {
      violation(P04 | P11, "%s: begin()->end() visits %zu element(s) that are not exactly the %zu of std::set (each once)", what, seen.size(), expect.size());
      return;
    }
    // backward walk
    std::vector<int> rseen;
    steps = 0;
    try {
      for (typename S::const_reverse_iterator it = c.rbegin(); it != c.rend() && steps <= m.size() + 1; ++it, ++steps) {
        rseen.push_back(val_of(*it));
        if (arrow(it) != std::addressof(*it)) violation(P11, "%s: reverse iterator operator-> does not designate the element operator* designates", what);
      }
    } catch (const std::exception &e) {
      violation(P11, "%s: walking rbegin()->rend() threw '%s'", what, e.what());
      return;
    }
    std::reverse(rseen.begin(), rseen.end());
    if (!tainted() && rseen != seen) violation(P11, "%s: rbegin()->rend() does not visit the reverse of begin()->end()", what);
    // iterator protocol on every position: it++ / it-- yield the old position and step by one, --end() reaches the last element,
    // a backward walk with the postfix form visits every element once
    if (!m.empty()) {
      typename S::const_iterator it = c.begin();
      for (size_t k = 0; k < seen.size() && !tainted(); ++k) {
        typename S::const_iterator old = it, nxt = it;
        ++nxt;
        typename S::const_iterator r = it++;
        if (!(r == old) || !(it == nxt)) {
          violation(P11, "%s: it++ at position %zu does not return the old position and advance by one", what, k);
          break;
        }
        typename S::const_iterator back = it;
        typename S::const_iterator r2 = back--;
        if (!(r2 == it) || !(back == old)) {
          violation(P11, "%s: it-- at position %zu does not return the old position and step back by one", what, k + 1);
          break;
        }
        typename S::const_iterator pre = it;
        if (!(--pre == old) || val_of(*pre) != seen[k]) {
          violation(P11, "%s: --it at position %zu does not designate the previous element", what, k + 1);
          break;
        }
      }
      if (!tainted()) {
        std::vector<int> back;
        typename S::const_iterator b = c.end();
        size_t guard = 0;
        while (!(b == c.begin()) && guard++ <= seen.size()) {
          b--;
          back.push_back(val_of(*b));
        }
        std::reverse(back.begin(), back.end());
        if (back != seen) violation(P11, "%s: walking back from end() with it-- does not visit the elements of the forward walk in reverse", what);
      }
      if (!tainted()) {
        typename S::const_reverse_iterator rit = c.rbegin();
        typename S::const_reverse_iterator rold = rit;
        typename S::const_reverse_iterator rr = rit++;
        if (!(rr == rold) || val_of(*rr) != seen[seen.size() - 1]) violation(P11, "%s: reverse iterator rit++ does not return the old position", what);
        typename S::const_reverse_iterator rr2 = rit--;
        if (!tainted() && (!(rit == rold) || (seen.size() > 1 && val_of(*rr2) != seen[seen.size() - 2]))) violation(P11, "%s: reverse iterator rit-- does not return the old position and step back", what);
      }
    }
    if (tainted()) return;
    // membership of every key of the domain
    for (int k = 0; k < KEYS && !tainted(); ++k) {
      E key(ET<E>::make(k));
      bool has = c.contains(key);
      if (has != (m.find(k) != m.end())) violation(P04, "%s: contains(%d) is %d, std::set says %d", what, k, has, !has);
    }
    if (tainted()) return;
    bool inl = is_inline(i);
    if (!inl) {
      feature(SF_LARGE_STATE);
      if (!s[i].was_large) feature(SF_CROSS_N);
      s[i].was_large = true;
      if (s[i].drained) feature(SF_DRAIN_REFILL);
    } else if (s[i].was_large && c.empty()) {
      s[i].drained = true;
    }
    // C05 flag
    if (static_cast<long>(m.size()) > N) s[i].flag = false;
    if (s[i].flag && !inl) violation(P05 | PSOFT, "%s: SmallSet that never held more than N=%ld elements keeps them outside the object", what, N);
  }
  void mutated(int i) {
    ++ctx().case_mut_ops;
    if (s[i].muts_since_reloc >= 0 && ++s[i].muts_since_reloc >= 3) feature(SF_RELOC_THEN_MUT);
  }
  // iterator returned by an op must designate the element equivalent to v
  void check_ret_iter(int i, typename S::const_iterator r, int v, const char *what) {
    if (tainted()) return;
    const S &c = *s[i].c;
    Model::const_iterator mit = s[i].m->find(v);
    try {
      if (mit == s[i].m->end()) {
        if (!(r == c.end())) violation(P11, "%s: returned iterator != end() although no element equivalent to %d exists", what, v);
        return;
      }
      if (r == c.end()) {
        violation(P11, "%s: returned end() although an element equivalent to %d is in the set", what, v);
        return;
      }
      int got = val_of(*r);
      if (got != *mit) violation(P11, "%s: returned iterator dereferences to %d, expected %d", what, got, *mit);
    } catch (const std::exception &e) {
      violation(P11, "%s: using the returned iterator threw '%s'", what, e.what());
    }
  }

  // ---------------------------------------------------------------- lifecycle
  void begin_case() {
    ledgers_reset();
    aledger_reset();
    for (int i = 0; i < K; ++i) {
      s[i].mem = obj_alloc();
      s[i].c = new (s[i].mem) S();
      s[i].m = new Model(CmpTraits<Cmp>::model(s[i].c->key_comp()));
      s[i].flag = true;
      s[i].was_large = s[i].drained = false;
      s[i].muts_since_reloc = -1;
    }
    for (int i = 0; i < KB; ++i) {
      sib[i] = new SB();
      sibm[i] = new Model(CmpTraits<CmpB>::model(sib[i]->key_comp()));
      sibflag[i] = true;
    }
    node = new typename S::node_type();
    node_has = false;
    node_val = 0;
  }
  void end_case() {
    bool bad = tainted();
    for (int i = 0; i < K; ++i) {
      if (!bad) {
        s[i].c->~S();
        free(s[i].mem);
      }
      delete s[i].m;
      s[i].c = 0, s[i].mem = 0, s[i].m = 0;
    }
    for (int i = 0; i < KB; ++i) {
      if (!bad) delete sib[i];
      delete sibm[i];
      sib[i] = 0, sibm[i] = 0;
    }
    if (!bad) delete node;
    node = 0;
    if (bad) return;
    if (cells().live != 0) violation(P02, "end of case: %u element value(s) still alive after all sets were destroyed (leak)", cells().live);
    if (shells().live != 0) violation(P02, "end of case: %u element object(s) never destroyed", shells().live);
    if (aledger().outstanding != 0) violation(P06, "end of case: %u block(s) never handed back to the allocator", aledger().outstanding);
  }
  FILE *transcript = 0;
  int portability = 0;
  // abstract state of slot 0 at the end of the last run (for the bounded-exhaustive search): content bitmask | inline flag << 32
  uint64_t final_state = 0;
  void dump_state() {
    for (int i = 0; i < K; ++i) {
      fprintf(transcript, " s%d(size=%ld)[", i, static_cast<long>(s[i].c->size()));
      std::vector<int> vals;
      for (typename S::const_iterator it = s[i].c->begin(); it != s[i].c->end(); ++it) vals.push_back(val_of(*it));
      std::sort(vals.begin(), vals.end(), s[i].m->key_comp());
      for (size_t q = 0; q < vals.size(); ++q) fprintf(transcript, "%d,", vals[q]);
      fprintf(transcript, "]");
    }
    fprintf(transcript, "\n");
  }
  bool run(const Op *ops, size_t n) {
    case_begin();
    begin_case();
    for (size_t k = 0; k < n && !tainted(); ++k) {
      crash_area_op(static_cast<uint32_t>(k));
      step(ops[k]);
      ++ctx().ops;
      if (transcript && !tainted()) {
        fprintf(transcript, "op %d %d %d %d %d:", ops[k].code % kSmallSetNumOps, ops[k].a, ops[k].b, ops[k].c, ops[k].d);
        dump_state();
      }
    }
    if (!tainted())
      for (int i = 0; i < K; ++i) check_set(i, "end of case");
    if (!tainted()) {
      final_state = 0;
      for (Model::const_iterator it = s[0].m->begin(); it != s[0].m->end(); ++it) final_state |= 1ull << (*it % 32);
      if (is_inline(0)) final_state |= 1ull << 32;
      if (node_has) final_state |= static_cast<uint64_t>(node_val + 1) << 40;
    } else {
      final_state = ~0ull;
    }
    end_case();
    bool f = ctx().failed;
    case_end(nontrivial());
    return f;
  }
  bool nontrivial() const {
    uint64_t f = ctx().case_features;
#define HASF(b) ((f >> (b)) & 1)
    switch (ctx().prop) {
      case 4: return ctx().case_mut_ops >= 3 && (HASF(SF_CROSS_N) || HASF(SF_MIXED_STATE_OP));
      case 11: return ctx().case_mut_ops >= 3 && (HASF(SF_LARGE_STATE) || HASF(SF_STATE_CHANGE_IN_CALL));
      case 5: return ctx().case_mut_ops >= 4 && HASF(SF_MERGE) && !HASF(SF_CROSS_N);
      case 14: return HASF(SF_RELOCATE) && HASF(SF_RELOC_THEN_MUT);
      case 9: return ctx().case_mut_ops >= 3 && HASF(SF_FAULT);
      default: return ctx().case_mut_ops >= 5 && HASF(SF_CROSS_N);
    }
#undef HASF
  }

#include "smallset_ops.inc"
};

}  // namespace vf
