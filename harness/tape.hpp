// tape.hpp - the op tape: 5 bytes per op {code,a,b,c,d}; text replay files. C++11-compatible.
#pragma once

#include <cstdint>
#include <cstdio>
#include <cstring>
#include <string>
#include <vector>

namespace vf {

struct Op {
  uint8_t code, a, b, c, d;
};

inline std::vector<Op> tape_from_bytes(const unsigned char *p, size_t nbytes) {
  std::vector<Op> t;
  for (size_t i = 0; i + 5 <= nbytes; i += 5) {
    Op o;
    o.code = p[i];
    o.a = p[i + 1];
    o.b = p[i + 2];
    o.c = p[i + 3];
    o.d = p[i + 4];
    t.push_back(o);
  }
  return t;
}

// Replay file: header line "key=value ..." then one op per line "code a b c d  # comment"
struct ReplayFile {
  std::string header;
  std::vector<Op> ops;
};

inline bool replay_read(const char *path, ReplayFile &rf) {
  FILE *f = fopen(path, "r");
  if (!f) return false;
  char line[1024];
  bool first = true;
  while (fgets(line, sizeof line, f)) {
    if (first && (strstr(line, "check=") || strstr(line, "config="))) {
      rf.header = line;
      first = false;
      continue;
    }
    first = false;
    char *hash = strchr(line, '#');
    if (hash) *hash = 0;
    int v[5];
    if (sscanf(line, "%d %d %d %d %d", &v[0], &v[1], &v[2], &v[3], &v[4]) == 5) {
      Op o;
      o.code = static_cast<uint8_t>(v[0]);
      o.a = static_cast<uint8_t>(v[1]);
      o.b = static_cast<uint8_t>(v[2]);
      o.c = static_cast<uint8_t>(v[3]);
      o.d = static_cast<uint8_t>(v[4]);
      rf.ops.push_back(o);
    }
  }
  fclose(f);
  return true;
}

inline bool replay_write(const char *path, const std::string &header, const unsigned char *tape, size_t nops,
                         const std::vector<std::string> *comments) {
  FILE *f = fopen(path, "w");
  if (!f) return false;
  fprintf(f, "%s\n", header.c_str());
  for (size_t i = 0; i < nops; ++i) {
    const unsigned char *p = tape + 5 * i;
    fprintf(f, "%d %d %d %d %d", p[0], p[1], p[2], p[3], p[4]);
    if (comments && i < comments->size()) fprintf(f, "  # %s", (*comments)[i].c_str());
    fprintf(f, "\n");
  }
  fclose(f);
  return true;
}

}  // namespace vf
