// vec_interp.hpp - tape interpreter for the vector flavours (C01 C02 C05 C06 C07 C08 C10 C13 C14 histories).
// C++11-compatible (move-only element configs need C++17 for "if constexpr").
#pragma once

#include <algorithm>
#include <limits>
#include <stdexcept>
#include <string>
#include <type_traits>
#include <vector>

#include <amc/fixedcapacityvector.hpp>
#include <amc/smallvector.hpp>
#include <amc/vector.hpp>

#include "alloc.hpp"
#include "elem.hpp"
#include "iters.hpp"
#include "tape.hpp"
#include "vf_core.hpp"

#if __cplusplus >= 201703L
#define VF_CIF if constexpr
#else
#define VF_CIF if
#endif

namespace vf {

// feature bits of the vector interpreter
enum VecFeat {
  F_GROW_HEAP = 0, F_SHRINK_INLINE, F_XFER_MIXED, F_INTERIOR, F_EMPTY_ERASE, F_NONPTR_SRC, F_ALIAS, F_LIMIT,
  F_REALLOC, F_HANDOVER, F_FITS_INTERIOR, F_INLINE_XFER, F_RELOCATE, F_TWO_BLOCKS, F_INPUT_SRC, F_FROM_AUX,
  F_SWAP2, F_BULK, F_RELOC_THEN_MUT, F_ALIAS_HARD, F_SELF_OP, F_CTOR, F_CMP, F_ALLOC_FAIL, F_CAP_GREW, F_VEC_NFEAT
};
inline const char *vec_feat_name(int i) {
  static const char *n[] = {"inline_to_heap_growth", "heap_to_inline_shrink", "move_swap_mixed_states", "interior_insert_erase",
                            "empty_range_erase", "non_pointer_range_source", "aliasing_argument", "limit_error",
                            "reallocation", "heap_buffer_handover", "fits_capacity_interior_op", "within_N_transfer_unequal_fill",
                            "memcpy_relocation", "two_heap_blocks", "single_pass_source", "ctor_from_vector_rvalue",
                            "swap2", "bulk_append", "relocate_then_3_mutations", "alias_at_or_after_pos_or_realloc",
                            "self_assign_or_self_swap", "constructor_rebuild", "comparison", "allocation_failure_survived", "capacity_grew_in_a_growing_op"};
  return (i >= 0 && i < F_VEC_NFEAT) ? n[i] : 0;
}

static const int kVecNumOps = 50;

template <class V>
struct VecTraits {
  typedef typename V::value_type E;
  typedef typename V::size_type ST;
  typedef typename V::allocator_type A;
  static const bool is_fcv = std::is_same<A, amc::vec::EmptyAlloc>::value;
  enum : long { N = static_cast<long>(V::kInlineCapacity) };
  enum { kind = is_fcv ? 2 : (N == 0 ? 0 : 1) };
  static const bool ledger = alloc_on_ledger<A>::value;
  static long st_max() {
    unsigned long long m = static_cast<unsigned long long>(std::numeric_limits<ST>::max());
    return m > 1000000ull ? 1000000L : static_cast<long>(m);
  }
};

template <class V, bool Dyn>
struct AuxOf {
  typedef amc::vector<typename V::value_type, typename V::allocator_type, typename V::size_type> type;
};
template <class V>
struct AuxOf<V, false> {
  typedef V type;  // unused
};

template <class V>
class VecInterp {
 public:
  typedef VecTraits<V> T;
  typedef typename T::E E;
  typedef typename T::ST ST;
  typedef typename T::A A;
  typedef typename AuxOf<V, T::kind == 1>::type Aux;
  static const int K = 3;
  static const int KAUX = 2;

  struct Slot {
    V *c;
    void *mem;
    std::vector<int> m;
    bool flag;              // C05: must still be inline
    const void *fcv_begin;  // C05: begin() at construction (FixedCapacityVector)
    int muts_since_reloc;   // C14
  };
  struct Snap {
    const E *data;
    long cap, size;
    bool inl, flag, valid;
    std::vector<uint32_t> ids;
  };

  const char *cfgname;
  bool relocate_enabled;   // C14 targets only
  bool within_n;           // C05 discipline for slots 0,1
  Slot s[K];
  Snap snap[K];
  Aux *aux[KAUX];
  std::vector<int> auxm[KAUX];
  uint64_t w_req0, w_mal0, w_ev0, w_dreq, w_dmal, w_dev;
  bool w_threw;
  uint32_t heap_blocks_seen;
  bool keep_moved_from;
  FILE *transcript;
  int portability;  // C16: 1 = skip ops only C++20 offers, 2 = also skip everything not offered by every configuration

  void dump_state() {
    if (!transcript) return;
    for (int i = 0; i < K; ++i) {
      fprintf(transcript, " c%d(size=%ld cap=%ld)[", i, static_cast<long>(s[i].c->size()), static_cast<long>(s[i].c->capacity()));
      for (typename V::const_iterator it = s[i].c->begin(); it != s[i].c->end(); ++it) fprintf(transcript, "%d,", val_of(*it));
      fprintf(transcript, "]");
    }
    fprintf(transcript, "\n");
  }

  explicit VecInterp(const char *name) : cfgname(name), relocate_enabled(false), within_n(false), keep_moved_from(false), transcript(0), portability(0) {
    for (int i = 0; i < K; ++i) {
      s[i].c = 0;
      s[i].mem = 0;
    }
    for (int i = 0; i < KAUX; ++i) aux[i] = 0;
  }

  // ---------------------------------------------------------------- storage
  static void *obj_alloc() {
    size_t al = alignof(V) < 16 ? 16 : alignof(V);
    size_t sz = (sizeof(V) + al - 1) / al * al;
    // C14 reasons about the sizeof(V) bytes a relocation copies: leave room behind the object so that inline slots reaching beyond it
    // are reported by the layout check below instead of stopping the process at the first write
    if (ctx().prop == 14) sz += 64;
    void *p = 0;
    if (posix_memalign(&p, al, sz) != 0) abort();
    memset(p, 0xCD, sz);
    return p;
  }
  bool inside(int i, const void *p) const {
    const char *b = static_cast<const char *>(s[i].mem);
    const char *q = static_cast<const char *>(p);
    return q >= b && q < b + sizeof(V);
  }
  void after_construct(int i) {
    Slot &x = s[i];
    x.fcv_begin = x.c->data();
    x.flag = static_cast<long>(x.c->size()) <= T::N;
    x.muts_since_reloc = -1;
  }

  // ---------------------------------------------------------------- limits
  long limit(int i) const {
    if (T::is_fcv) return T::N;
    long hard = std::min<long>(T::st_max(), 300);
    if (within_n && i < 2 && T::N >= 1) hard = std::min<long>(hard, T::N);
    return hard;
  }
  long room(int i) const {
    long r = limit(i) - static_cast<long>(s[i].m.size());
    return r < 0 ? 0 : r;
  }
  static int nv(int v) { return v > ET<E>::maxval ? v % (ET<E>::maxval + 1) : v; }
  static int mkval(int d) { return (d % 16 == 15) ? std::min<int>(200 + d, ET<E>::maxval) : d % 16; }

  // ---------------------------------------------------------------- windows
  void wbegin() {
    w_threw = false;
    w_req0 = aledger().requests;
    w_mal0 = mstats().mallocs;
    w_ev0 = events().total();
  }
  void wend() {
    w_dreq = aledger().requests - w_req0;
    w_dmal = mstats().mallocs - w_mal0;
    w_dev = events().total() - w_ev0;
  }
  // run an amc call that is not expected to throw
  template <class F>
  void call(F f, const char *what) {
    wbegin();
    try {
      f();
    } catch (const std::exception &e) {
      w_threw = true;
      violation(P01 | P08, "%s: unexpected exception '%s'", what, e.what());
    } catch (...) {
      w_threw = true;
      violation(P01 | P08, "%s: unexpected foreign exception", what);
    }
    wend();
  }

  // ---------------------------------------------------------------- snapshots
  void take(int i) {
    Snap &n = snap[i];
    V &c = *s[i].c;
    n.valid = true;
    n.data = c.data();
    n.cap = static_cast<long>(c.capacity());
    n.size = static_cast<long>(c.size());
    n.inl = inside(i, n.data);
    n.flag = s[i].flag;
    n.ids.clear();
    if (ET<E>::tracked) {
      long lim = std::min<long>(n.size, 400);
      for (long k = 0; k < lim; ++k) n.ids.push_back(ET<E>::id(n.data[k]));
    }
  }

  enum Cls { K_GROW, K_ERASE, K_RESERVE, K_SHRINK, K_MOVEDST, K_MOVESRC, K_SWAP, K_READ, K_OTHER };

  // ---------------------------------------------------------------- checks after an op on slot i
  // A disagreement with std::vector is reported; when it is not the property being checked the case goes on with the
  // model re-synchronised from what the container shows (the consequences may concern the checked property).
  void compare_model(int i, const char *what) {
    const uint64_t soft0 = ctx().nonfatal_soft;
    compare_model_impl(i, what);
    if (ctx().nonfatal_soft != soft0 && !tainted()) resync_model(i, what);
  }
  void resync_model(int i, const char *what) {
    V &c = *s[i].c;
    long size = static_cast<long>(c.size());
    if (size < 0 || size > 2000 || size > static_cast<long>(c.capacity())) {
      violation(P01 | PSOFT, "%s: container state too inconsistent to go on (size %ld)", what, size);
      return;
    }
    std::vector<int> now;
    for (long k = 0; k < size; ++k) {
      if (!ET<E>::readable(c.data()[k])) {
        violation(P01 | P02, "%s: element %ld cannot be read, the case cannot go on", what, k);
        return;
      }
      now.push_back(val_of(c.data()[k]));
    }
    s[i].m = now;
  }
  void compare_model_impl(int i, const char *what) {
    V &c = *s[i].c;
    const std::vector<int> &m = s[i].m;
    if (static_cast<size_t>(c.size()) != m.size()) {
      violation(P01 | PSOFT, "%s: size() is %ld, std::vector has %zu", what, static_cast<long>(c.size()), m.size());
      return;
    }
    if (c.empty() != m.empty()) violation(P01 | PSOFT, "%s: empty() disagrees with std::vector", what);
    const V &cc = c;
    typename V::const_iterator it = cc.begin();
    for (size_t k = 0; k < m.size(); ++k, ++it) {
      if (it == cc.end()) {
        violation(P01 | PSOFT, "%s: iteration ends after %zu of %zu elements", what, k, m.size());
        return;
      }
      int v;
      {
        // an element that cannot be read (moved-from, not alive) is also a wrong element of the sequence
        ExtraTag tg(P01);
        v = val_of(*it);
      }
      if (tainted()) return;
      if (v != m[k]) {
        violation(P01 | PSOFT, "%s: element %zu is %d, std::vector has %d", what, k, v, m[k]);
        return;
      }
    }
    if (it != cc.end()) violation(P01 | PSOFT, "%s: iteration continues past size()", what);
    if (!m.empty()) {
      if (val_of(cc.front()) != m.front()) violation(P01 | PSOFT, "%s: front() differs", what);
      if (val_of(cc.back()) != m.back()) violation(P01 | PSOFT, "%s: back() differs", what);
      size_t mid = m.size() / 2;
      if (val_of(cc[static_cast<ST>(mid)]) != m[mid]) violation(P01 | PSOFT, "%s: operator[] differs", what);
    }
  }

  void check_storage(int i, const char *what) {
    V &c = *s[i].c;
    long size = static_cast<long>(c.size()), cap = static_cast<long>(c.capacity());
    const E *d = c.data();
    bool inl = inside(i, d);
    if (size > cap) {
      violation(P07 | PSOFT, "%s: size() %ld exceeds capacity() %ld", what, size, cap);
      return;
    }
    if (static_cast<unsigned long long>(cap) > static_cast<unsigned long long>(c.max_size()))
      violation(P07 | PSOFT, "%s: capacity() %ld exceeds max_size()", what, cap);
    bool cap_trusted = true;
    if (cap > 0 && !inl) {
      if (T::is_fcv) {
        violation(P05 | PSOFT, "%s: FixedCapacityVector data() lies outside the object", what);
        return;
      }
      if (T::ledger) {
        AllocEntry *x = aledger_find(d);
        size_t have = x ? (x->esize == 1 ? x->count / sizeof(E) : x->count) : 0;
        if (!x || x->live != 1) {
          if (!ctx().resource_skip) violation(P06 | P02, "%s: data() is not a live block of the allocator", what);
          return;
        } else if (static_cast<long>(have) != cap) {
          // the capacity word is the only record of the count passed to allocate
          violation(P06, "%s: capacity() is %ld but the heap block was obtained for %zu elements", what, cap, have);
          if (static_cast<long>(have) < cap) cap_trusted = false;
        }
      }
    } else if (inl && !inside(i, reinterpret_cast<const char *>(d + cap) - 1) && cap > 0) {
      // the inline slots must lie inside the object entirely: the last one ends beyond it
      violation(P05 | P07 | P17 | (amc::is_trivially_relocatable<V>::value ? P14 : 0u),
                "%s: the %ld inline slots of %zu bytes starting at offset %ld do not fit in the object of %zu bytes (a byte copy of the object loses them)", what, cap, sizeof(E),
                static_cast<long>(reinterpret_cast<const char *>(d) - static_cast<const char *>(s[i].mem)), sizeof(V));
      cap_trusted = false;
    } else if (inl && cap > T::N) {
      violation(P07 | P05, "%s: inline vector reports capacity() %ld > N", what, cap);
      cap_trusted = false;
    }
    if (tainted()) return;
    // elements visible: alive, not moved-from
    if (ET<E>::tracked) {
      for (long k = 0; k < size; ++k)
        if (!ET<E>::readable(d[k])) {
          violation(P02, "%s: element %ld visible through the container is moved-from or not alive", what, k);
          return;
        }
    }
    // raw tail: no live shell may remain there; then scribble it so that stale slots cannot be mistaken for elements
    if (cap_trusted && cap > size) {
      if (std::is_same<E, NTR>::value || std::is_same<E, MO>::value) {
        for (long k = size; k < cap; ++k)
          if (shell_present(static_cast<const void *>(d + k))) {
            violation(P02, "%s: an element object is still alive in the raw slot %ld beyond size() %ld", what, k, size);
            return;
          }
      }
      memset(const_cast<void *>(static_cast<const void *>(d + size)), 0xA5, static_cast<size_t>(cap - size) * sizeof(E));
    }
  }

  // C07 + C05 predicates; 'keep' = number of leading elements whose references must survive when no reallocation is
  // needed; 'req' = largest size/reserve request made by the op
  void check_contract(int i, Cls cls, long keep, long req, const char *what) {
    Snap &b = snap[i];
    V &c = *s[i].c;
    Slot &x = s[i];
    if (!b.valid) return;
    long size = static_cast<long>(c.size()), cap = static_cast<long>(c.capacity());
    const E *d = c.data();
    bool inl = inside(i, d);
    if (cls != K_SHRINK && cls != K_MOVEDST && cls != K_MOVESRC && cls != K_SWAP && cap < b.cap)
      violation(P07 | PSOFT, "%s: capacity() decreased from %ld to %ld", what, b.cap, cap);
    if (cls == K_RESERVE && cap < req) violation(P07 | P18 | PSOFT, "%s: capacity() %ld < reserved %ld", what, cap, req);
    if ((cls == K_GROW || cls == K_ERASE || cls == K_RESERVE) && std::max(size, req) <= b.cap && !w_threw) {
      if (d != b.data) {
        violation(P07 | PSOFT, "%s: result fits capacity %ld but data() changed (needless reallocation)", what, b.cap);
      } else if (ET<E>::tracked) {
        long lim = std::min<long>(std::min<long>(keep, size), static_cast<long>(b.ids.size()));
        for (long k = 0; k < lim; ++k)
          if (ET<E>::id(d[k]) != b.ids[k]) {
            violation(P07 | PSOFT, "%s: element %ld before the insertion/erasure point was replaced (reference invalidated)", what, k);
            break;
          }
      }
      if (keep > 0 && keep < b.size && cls != K_RESERVE) feature(F_FITS_INTERIOR);
    }
    // ---- C18: a growing operation (assign excluded: it may size exactly) that has to change the capacity multiplies it by >= 1.5
    // unless the size_type limits it
    if (T::kind != 2 && cls == K_GROW && !w_threw && cap != b.cap && b.cap > 0 && strncmp(what, "assign", 6) != 0 && strncmp(what, "operator=", 9) != 0) {
      const long stmax = static_cast<long>(std::min<unsigned long long>(std::numeric_limits<typename V::size_type>::max(), 1ull << 40));
      if (cap > b.cap && cap < stmax && 2 * cap < 3 * b.cap)
        violation(P18 | PSOFT, "%s: capacity grew from %ld to %ld: factor below 1.5 without being limited by size_type", what, b.cap, cap);
      if (cap > b.cap) feature(F_CAP_GREW);
    }
    if (!inl && b.inl && cap > 0) feature(F_GROW_HEAP);
    if (inl && !b.inl && b.cap > 0) feature(F_SHRINK_INLINE);
    if (d != b.data && !inl && !b.inl && b.cap > 0 && cap > 0 && (cls == K_GROW || cls == K_RESERVE || cls == K_SHRINK)) feature(F_REALLOC);
    // ---- C05
    if (T::kind == 2) {
      if (d != x.fcv_begin) violation(P05 | PSOFT, "%s: FixedCapacityVector begin() changed during the object's life", what);
      if (w_dmal != 0 && !w_threw) violation(P05 | PSOFT, "%s: %lu dynamic allocation(s) during an operation on a FixedCapacityVector", what, (unsigned long)w_dmal);
    } else if (T::kind == 1) {
      if (req > T::N || size > T::N) x.flag = false;
      if (cls == K_SHRINK && size <= T::N) x.flag = true;
      if (x.flag) {
        if (cap != T::N)
          violation(P05 | PSOFT, "%s: SmallVector within N reports capacity() %ld instead of N=%ld", what, cap, T::N);
        else if (!inl)
          violation(P05 | PSOFT, "%s: SmallVector within N keeps its elements outside the object", what);
      }
    }
  }
  // call once per op after check_contract of all operands: the allocation part of the inline promise
  void check_no_alloc(bool all_flagged_before, bool all_flagged_after, const char *what) {
    if (T::kind != 1) return;
    if (all_flagged_before && all_flagged_after && !w_threw) {
      if (w_dreq != 0)
        violation(P05 | PSOFT, "%s: %lu allocator request(s) although no operand ever exceeded N", what, (unsigned long)w_dreq);
      else if (w_dmal != 0 && mstats().installed)
        violation(P05 | PSOFT, "%s: %lu malloc/new call(s) although no operand ever exceeded N", what, (unsigned long)w_dmal);
    }
  }

  // the usual epilogue of an op on one container
  void post1(int i, Cls cls, long keep, long req, const char *what) {
    if (tainted()) return;
    bool fb = snap[i].flag;
    compare_model(i, what);  // the public API first: what a user would see
    if (tainted()) return;
    check_storage(i, what);
    if (tainted()) return;
    check_contract(i, cls, keep, req, what);
    check_no_alloc(fb, s[i].flag, what);
    if (cls != K_READ) {
      ++ctx().case_mut_ops;
      if (s[i].muts_since_reloc >= 0 && ++s[i].muts_since_reloc >= 3) feature(F_RELOC_THEN_MUT);
    }
    if (!inside(i, s[i].c->data()) && s[i].c->capacity() > 0 && ++heap_blocks_seen >= 2) feature(F_TWO_BLOCKS);
  }

  // ---------------------------------------------------------------- case lifecycle
  void begin_case() {
    ledgers_reset();
    aledger_reset();
    heap_blocks_seen = 0;
    for (int i = 0; i < K; ++i) {
      s[i].mem = obj_alloc();
      s[i].c = new (s[i].mem) V();
      s[i].m.clear();
      after_construct(i);
      snap[i].valid = false;
    }
    for (int i = 0; i < KAUX; ++i) {
      aux[i] = 0;
      auxm[i].clear();
    }
    make_aux(std::integral_constant<bool, T::kind == 1>());
  }
  void make_aux(std::true_type) {
    for (int i = 0; i < KAUX; ++i) aux[i] = new Aux();
  }
  void make_aux(std::false_type) {}
  void kill_aux(std::true_type) {
    for (int i = 0; i < KAUX; ++i) {
      delete aux[i];
      aux[i] = 0;
    }
  }
  void kill_aux(std::false_type) {}

  void end_case() {
    if (tainted()) {
      // a flagged violation may have left the containers corrupt: abandon them (no destructor) and drop the ledgers
      for (int i = 0; i < K; ++i) {
        s[i].c = 0;
        s[i].mem = 0;  // leaked on purpose
      }
      for (int i = 0; i < KAUX; ++i) aux[i] = 0;
      return;
    }
    for (int i = 0; i < K; ++i) {
      s[i].c->~V();
      free(s[i].mem);
      s[i].c = 0;
      s[i].mem = 0;
      s[i].m.clear();
    }
    kill_aux(std::integral_constant<bool, T::kind == 1>());
    if (tainted()) return;
    if (cells().live != 0)
      violation(P02, "end of case: %u element value(s) still alive after all containers were destroyed (leak)", cells().live);
    if (shells().live != 0)
      violation(P02, "end of case: %u element object(s) never destroyed", shells().live);
    if (aledger().outstanding != 0)
      violation(P06, "end of case: %u block(s) never handed back to the allocator", aledger().outstanding);
  }

  // ---------------------------------------------------------------- driver
  // returns true when the case failed (fatal violation)
  bool run(const Op *ops, size_t n) {
    case_begin();
    begin_case();
    for (size_t k = 0; k < n && !tainted(); ++k) {
      crash_area_op(static_cast<uint32_t>(k));
      step(ops[k]);
      ++ctx().ops;
      if (transcript && !tainted()) {
        fprintf(transcript, "op %d %d %d %d %d:", ops[k].code % kVecNumOps, ops[k].a, ops[k].b, ops[k].c, ops[k].d);
        dump_state();
      }
    }
    end_case();
    bool failed_now = ctx().failed;
    case_end(nontrivial());
    return failed_now;
  }

  bool nontrivial() const {
    uint64_t f = ctx().case_features;
#define HASF(b) ((f >> (b)) & 1)
    bool boundary = HASF(F_GROW_HEAP) || HASF(F_SHRINK_INLINE) || HASF(F_XFER_MIXED) || HASF(F_INTERIOR) || HASF(F_EMPTY_ERASE) ||
                    HASF(F_NONPTR_SRC) || HASF(F_ALIAS) || HASF(F_LIMIT);
    bool base = ctx().case_mut_ops >= 6 && boundary;
    switch (ctx().prop) {
      case 1: return base;
      case 2: return base && (HASF(F_REALLOC) || HASF(F_GROW_HEAP) || HASF(F_SHRINK_INLINE) || HASF(F_INTERIOR) || HASF(F_XFER_MIXED));
      case 5: return T::kind == 2 ? base : HASF(F_INLINE_XFER) != 0;
      case 6: return HASF(F_TWO_BLOCKS) && (HASF(F_HANDOVER) || HASF(F_SHRINK_INLINE));
      case 7: return HASF(F_FITS_INTERIOR) && (T::kind == 2 || HASF(F_HANDOVER));
      case 8: return HASF(F_LIMIT) != 0;
      case 10: return HASF(F_ALIAS_HARD) != 0;
      case 13: return HASF(F_SWAP2) != 0 && ctx().case_mut_ops >= 3;
      case 14: return HASF(F_RELOCATE) && HASF(F_RELOC_THEN_MUT);
      case 18: return HASF(F_CAP_GREW) && ctx().case_mut_ops >= 4;
      default: return base;
    }
#undef HASF
  }

#include "vec_ops.inc"
#include "vec_ops3.inc"
};

}  // namespace vf
