// flatset_interp.hpp - tape interpreter for amc::FlatSet against std::set<int, ModelCmp> (C03; C02 C06 C14 ride on it).
// C++11-compatible; node handles need C++17.
#pragma once

#include <algorithm>
#include <set>
#include <string>
#include <vector>

#include <amc/fixedcapacityvector.hpp>
#include <amc/flatset.hpp>
#include <amc/smallvector.hpp>
#include <amc/vector.hpp>

#include "alloc.hpp"
#include "cmp.hpp"
#include "elem.hpp"
#include "iters.hpp"
#include "tape.hpp"
#include "vf_core.hpp"

#if __cplusplus >= 201703L
#define VF_CIF if constexpr
#else
#define VF_CIF if
#endif

namespace vf {

enum SetFeat {
  SF_BULK_DUP = 0, SF_MERGE, SF_HINT, SF_NODE_REINSERT, SF_ERASE_RANGE, SF_VEC_HANDOVER, SF_LOOKUP_PRESENT, SF_LOOKUP_ABSENT,
  SF_NODE_DUP, SF_MERGE_DIFF_STATE, SF_BIG_RANGE, SF_HETERO, SF_RELOCATE, SF_RELOC_THEN_MUT, SF_SIBLING_MERGE, SF_SWAP_STATE,
  SF_CROSS_N, SF_MIXED_STATE_OP, SF_LARGE_STATE, SF_STATE_CHANGE_IN_CALL, SF_ERASE_LOOP, SF_DRAIN_REFILL, SF_FAULT, SF_NFEAT
};
inline const char *set_feat_name(int i) {
  static const char *n[] = {"bulk_insert_with_duplicates", "merge", "hinted_insert", "node_reinsert", "erase_range", "vector_handover",
                            "lookup_present", "lookup_absent", "node_insert_meets_duplicate", "merge_different_comparator_state",
                            "range_longer_than_16", "heterogeneous_lookup", "memcpy_relocation", "relocate_then_3_mutations",
                            "sibling_comparator_merge", "swap_or_assign_between_comparator_states", "crosses_N_boundary",
                            "op_between_inline_and_large_sets", "large_state", "state_change_inside_call", "erase_loop", "drain_and_refill", "fault_injected_and_survived"};
  return (i >= 0 && i < SF_NFEAT) ? n[i] : 0;
}

static const int kFlatSetNumOps = 32;

template <class VecType>
struct SetVecTraits {
  typedef typename VecType::value_type E;
  static const bool is_stdvec = false;
  static const bool is_fcv = std::is_same<typename VecType::allocator_type, amc::vec::EmptyAlloc>::value;
  static long limit() { return is_fcv ? static_cast<long>(VecType::kInlineCapacity) : 200; }
  static long inline_n() { return static_cast<long>(VecType::kInlineCapacity); }
};
template <class E_, class A>
struct SetVecTraits<std::vector<E_, A> > {
  typedef E_ E;
  static const bool is_stdvec = true;
  static const bool is_fcv = false;
  static long limit() { return 200; }
  static long inline_n() { return 0; }
};

template <class S, class S2>
class FlatSetInterp {
 public:
  typedef typename S::value_type E;
  typedef typename S::key_compare Cmp;
  typedef typename S2::key_compare Cmp2;
  typedef typename S::allocator_type A;
#ifdef AMC_NONSTD_FEATURES
  typedef typename S::vector_type VecType;
#endif
  typedef std::set<int, ModelCmp> Model;
  static const int K = 3;
  static const int K2 = 2;
  static const int KEYS = 32;

  struct Slot {
    S *c;
    void *mem;
    Model *m;
    int muts_since_reloc;
  };
  const char *cfgname;
  bool relocate_enabled;
  long vec_limit;
  bool vec_is_std, vec_is_fcv;
  Slot s[K];
  S2 *sib[K2];
  Model *sibm[K2];
#if __cplusplus >= 201703L
  typename S::node_type *node;  // harness-owned node slot
#endif
  bool node_has;
  int node_val;

  FlatSetInterp(const char *name, long limit, bool is_std, bool is_fcv)
      : cfgname(name), relocate_enabled(false), vec_limit(limit), vec_is_std(is_std), vec_is_fcv(is_fcv) {
    for (int i = 0; i < K; ++i) s[i].c = 0, s[i].mem = 0, s[i].m = 0;
    for (int i = 0; i < K2; ++i) sib[i] = 0, sibm[i] = 0;
  }

  static void *obj_alloc() {
    size_t al = alignof(S) < 16 ? 16 : alignof(S);
    size_t sz = (sizeof(S) + al - 1) / al * al;
    void *p = 0;
    if (posix_memalign(&p, al, sz) != 0) abort();
    memset(p, 0xCD, sz);
    return p;
  }

  template <class F>
  void call(F f, const char *what) {
    try {
      f();
    } catch (const std::exception &e) {
      violation(P03, "%s: unexpected exception '%s'", what, e.what());
    } catch (...) {
      violation(P03, "%s: unexpected foreign exception", what);
    }
  }

  long room(int i) const {
    long r = vec_limit - static_cast<long>(s[i].m->size());
    return r < 0 ? 0 : r;
  }
  static int key_of(int b) { return b % KEYS; }
  static long idx_of(const Model &m, Model::const_iterator it) { return static_cast<long>(std::distance(m.begin(), it)); }

  // ---------------------------------------------------------------- invariants after an op
  void check_set(int i, const char *what) {
    if (tainted()) return;
    const S &c = *s[i].c;
    const Model &m = *s[i].m;
    if (static_cast<size_t>(c.size()) != m.size()) {
      violation(P03, "%s: size() is %ld, std::set has %zu", what, static_cast<long>(c.size()), m.size());
      return;
    }
    if (c.empty() != m.empty()) violation(P03, "%s: empty() disagrees", what);
    Cmp kc = c.key_comp();
    ModelCmp mc = CmpTraits<Cmp>::model(kc);
    ModelCmp mm = m.key_comp();
    if (mc.desc != mm.desc || mc.div != mm.div) {
      violation(P03, "%s: the set's comparator object is not the one it was constructed/assigned with", what);
      return;
    }
    typename S::const_iterator it = c.begin();
    Model::const_iterator mit = m.begin();
    const E *prev = 0;
    for (size_t k = 0; k < m.size(); ++k, ++it, ++mit) {
      if (it == c.end()) {
        violation(P03, "%s: iteration ends after %zu of %zu elements", what, k, m.size());
        return;
      }
      int v = val_of(*it);
      if (tainted()) return;
      if (v != *mit) {
        violation(P03, "%s: element %zu is %d, std::set has %d", what, k, v, *mit);
        return;
      }
      if (prev && !kc(*prev, *it)) {
        violation(P03, "%s: elements %zu and %zu are not strictly increasing under the set's comparator", what, k - 1, k);
        return;
      }
      prev = &*it;
    }
    if (it != c.end()) violation(P03, "%s: iteration continues past size()", what);
#ifdef AMC_NONSTD_FEATURES
    // scribble the raw tail of the underlying vector
    if (!tainted()) {
      long size = static_cast<long>(c.size()), cap = static_cast<long>(c.capacity());
      if (size > cap) {
        violation(P03 | P07, "%s: size() %ld > capacity() %ld", what, size, cap);
      } else if (cap > size && c.data() != 0) {
        bool ok = true;
        if (alloc_on_ledger<A>::value && !vec_is_fcv) {
          const char *b = static_cast<const char *>(s[i].mem);
          const char *q = reinterpret_cast<const char *>(c.data());
          bool inl = q >= b && q < b + sizeof(S);
          if (!inl) {
            AllocEntry *x = aledger_find(c.data());
            size_t have = x ? (x->esize == 1 ? x->count / sizeof(E) : x->count) : 0;
            if (!x || x->live != 1 || static_cast<long>(have) < cap) ok = false;
            if (!x || x->live != 1) {
              if (!ctx().resource_skip) violation(P06 | P02, "%s: data() is not a live block of the allocator", what);
            } else if (static_cast<long>(have) != cap)
              violation(P06, "%s: capacity() is %ld but the block holds %zu elements", what, cap, have);
          }
        }
        if (ok && !tainted()) {
          if (std::is_same<E, NTR>::value || std::is_same<E, MO>::value)
            for (long k = size; k < cap; ++k)
              if (shell_present(static_cast<const void *>(c.data() + k))) {
                violation(P02, "%s: an element object is still alive in raw slot %ld beyond size() %ld", what, k, size);
                return;
              }
          memset(const_cast<void *>(static_cast<const void *>(c.data() + size)), 0xA5, static_cast<size_t>(cap - size) * sizeof(E));
        }
      }
    }
#endif
  }
  void mutated(int i) {
    ++ctx().case_mut_ops;
    if (s[i].muts_since_reloc >= 0 && ++s[i].muts_since_reloc >= 3) feature(SF_RELOC_THEN_MUT);
  }

  // ---------------------------------------------------------------- lifecycle
  void begin_case() {
    ledgers_reset();
    aledger_reset();
    for (int i = 0; i < K; ++i) {
      s[i].mem = obj_alloc();
      s[i].c = new (s[i].mem) S();
      s[i].m = new Model(CmpTraits<Cmp>::model(s[i].c->key_comp()));
      s[i].muts_since_reloc = -1;
    }
    for (int i = 0; i < K2; ++i) {
      sib[i] = new S2();
      sibm[i] = new Model(CmpTraits<Cmp2>::model(sib[i]->key_comp()));
    }
#if __cplusplus >= 201703L
    node = new typename S::node_type();
#endif
    node_has = false;
    node_val = 0;
  }
  void end_case() {
    bool bad = tainted();
    for (int i = 0; i < K; ++i) {
      if (!bad) {
        s[i].c->~S();
        free(s[i].mem);
      }
      delete s[i].m;
      s[i].c = 0, s[i].mem = 0, s[i].m = 0;
    }
    for (int i = 0; i < K2; ++i) {
      if (!bad) delete sib[i];
      delete sibm[i];
      sib[i] = 0, sibm[i] = 0;
    }
#if __cplusplus >= 201703L
    if (!bad) delete node;
    node = 0;
#endif
    if (bad) return;
    if (cells().live != 0) violation(P02, "end of case: %u element value(s) still alive after all sets were destroyed (leak)", cells().live);
    if (shells().live != 0) violation(P02, "end of case: %u element object(s) never destroyed", shells().live);
    if (aledger().outstanding != 0) violation(P06, "end of case: %u block(s) never handed back to the allocator", aledger().outstanding);
  }

  FILE *transcript = 0;
  int portability = 0;
  void dump_state() {
    for (int i = 0; i < K; ++i) {
      fprintf(transcript, " s%d(size=%ld)[", i, static_cast<long>(s[i].c->size()));
      std::vector<int> vals;
      for (typename S::const_iterator it = s[i].c->begin(); it != s[i].c->end(); ++it) vals.push_back(val_of(*it));
      
      for (size_t q = 0; q < vals.size(); ++q) fprintf(transcript, "%d,", vals[q]);
      fprintf(transcript, "]");
    }
    fprintf(transcript, "\n");
  }
  bool run(const Op *ops, size_t n) {
    case_begin();
    begin_case();
    for (size_t k = 0; k < n && !tainted(); ++k) {
      crash_area_op(static_cast<uint32_t>(k));
      step(ops[k]);
      ++ctx().ops;
      if (transcript && !tainted()) {
        fprintf(transcript, "op %d %d %d %d %d:", ops[k].code % kFlatSetNumOps, ops[k].a, ops[k].b, ops[k].c, ops[k].d);
        dump_state();
      }
    }
    if (!tainted())
      for (int i = 0; i < K; ++i) check_set(i, "end of case");
    end_case();
    bool f = ctx().failed;
    case_end(nontrivial());
    return f;
  }

  bool nontrivial() const {
    uint64_t f = ctx().case_features;
#define HASF(b) ((f >> (b)) & 1)
    bool special = HASF(SF_BULK_DUP) || HASF(SF_MERGE) || HASF(SF_HINT) || HASF(SF_NODE_REINSERT) || HASF(SF_ERASE_RANGE) || HASF(SF_VEC_HANDOVER);
    bool base = ctx().case_mut_ops >= 5 && special && HASF(SF_LOOKUP_PRESENT) && HASF(SF_LOOKUP_ABSENT);
    switch (ctx().prop) {
      case 14: return HASF(SF_RELOCATE) && HASF(SF_RELOC_THEN_MUT);
      case 6: return ctx().case_mut_ops >= 5 && (HASF(SF_VEC_HANDOVER) || HASF(SF_BIG_RANGE));
      case 2: return ctx().case_mut_ops >= 5 && special;
      case 9: return ctx().case_mut_ops >= 3 && HASF(SF_FAULT);
      default: return base;
    }
#undef HASF
  }

#include "flatset_ops.inc"
};

}  // namespace vf
