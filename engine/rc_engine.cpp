// rc_engine.cpp - the only TU that includes rapidcheck. Generates op tapes, lets rapidcheck shrink them.
// Plain C interface so that interpreters built with any -std= level can link against it.
#include <rapidcheck.h>

#include <cstdint>
#include <cstdio>
#include <cstdlib>
#include <cstring>
#include <string>
#include <vector>

extern "C" {
struct VfRcSpec {
  const uint32_t *weights;  // weight per op code (0 = never generated)
  int ncodes;
  int nominal_size;         // size at which field generators run (inRange collapses at small sizes)
};
typedef int (*vf_case_fn)(const unsigned char *tape, size_t nops, void *ctx);  // 0 pass, 1 fail
int vf_rc_run(const VfRcSpec *spec, vf_case_fn fn, void *ctx, unsigned char *out_tape, size_t *out_nops, size_t out_cap_ops);
}

namespace {
struct OpRec {
  uint8_t code, a, b, c, d;
};
}  // namespace

namespace rc {
template <>
struct Arbitrary<OpRec> {
  static Gen<OpRec> arbitrary() { return gen::just(OpRec{0, 0, 0, 0, 0}); }
};
}  // namespace rc

namespace rc { namespace detail {
inline std::ostream &operator<<(std::ostream &os, const OpRec &o) {
  return os << "(" << int(o.code) << " " << int(o.a) << " " << int(o.b) << " " << int(o.c) << " " << int(o.d) << ")";
}
}}
inline std::ostream &operator<<(std::ostream &os, const OpRec &o) {
  return os << "(" << int(o.code) << " " << int(o.a) << " " << int(o.b) << " " << int(o.c) << " " << int(o.d) << ")";
}

extern "C" int vf_rc_run(const VfRcSpec *spec, vf_case_fn fn, void *ctx, unsigned char *out_tape, size_t *out_nops, size_t out_cap_ops) {
  std::vector<uint8_t> table;  // each code repeated by its weight; elementOf shrinks towards the first entry
  for (int i = 0; i < spec->ncodes; ++i)
    for (uint32_t k = 0; k < spec->weights[i]; ++k) table.push_back(static_cast<uint8_t>(i));
  auto codeGen = rc::gen::elementOf(table);
  auto byteGen = rc::gen::resize(spec->nominal_size, rc::gen::inRange<int>(0, 256));
  auto opGen = rc::gen::apply(
      [](uint8_t code, int a, int b, int c, int d) {
        return OpRec{code, static_cast<uint8_t>(a), static_cast<uint8_t>(b), static_cast<uint8_t>(c), static_cast<uint8_t>(d)};
      },
      codeGen, byteGen, byteGen, byteGen, byteGen);
  auto tapeGen = rc::gen::container<std::vector<OpRec>>(opGen);

  std::vector<unsigned char> lastFail;
  bool anyFail = false;
  bool ok = rc::check([&] {
    const std::vector<OpRec> tape = *tapeGen;
    std::vector<unsigned char> bytes;
    bytes.reserve(tape.size() * 5);
    for (const OpRec &o : tape) {
      bytes.push_back(o.code);
      bytes.push_back(o.a);
      bytes.push_back(o.b);
      bytes.push_back(o.c);
      bytes.push_back(o.d);
    }
    int r = fn(bytes.data(), tape.size(), ctx);
    if (r != 0) {
      lastFail = bytes;
      anyFail = true;
    }
    RC_ASSERT(r == 0);
  });
  if (ok || !anyFail) {
    *out_nops = 0;
    return ok ? 0 : 2;
  }
  size_t nops = lastFail.size() / 5;
  if (nops > out_cap_ops) nops = out_cap_ops;
  memcpy(out_tape, lastFail.data(), nops * 5);
  *out_nops = nops;
  return 1;
}
