#!/usr/bin/env python3
"""rerun_seeded.py [seed ids...] - applies every confirmed seeded change (/verif/seeded/<id>/patch.diff) to a scratch copy of
/repo/include, runs the quick check of the property it breaks (plus properties named in meta['also_run']) and records what
detected it in meta.json ('final_checks', 'detected_by'). Minimal replay tapes are copied into corpus/regress/<prop>/."""
import json
import os
import shutil
import subprocess
import sys
import tempfile
import time

VERIF = os.path.dirname(os.path.dirname(os.path.abspath(__file__)))


def sh(cmd, cwd=None, env=None, timeout=7200):
    e = dict(os.environ)
    if env:
        e.update(env)
    r = subprocess.run(cmd, shell=True, cwd=cwd, capture_output=True, text=True, env=e, timeout=timeout, errors='replace')
    return r.returncode, r.stdout + r.stderr


def main():
    ids = sys.argv[1:] or sorted(os.listdir(os.path.join(VERIF, 'seeded')))
    summary = []
    for sid in ids:
        d = os.path.join(VERIF, 'seeded', sid)
        pf = os.path.join(d, 'patch.diff')
        if not os.path.exists(pf):
            continue
        meta = json.load(open(os.path.join(d, 'meta.json')))
        prop = meta.get('breaks_property') or meta.get('property')
        props = [prop] + [p for p in meta.get('also_run', []) if p != prop]
        t = tempfile.mkdtemp(prefix='amc-seed-', dir='/tmp')
        try:
            os.makedirs(t + '/include')
            sh('cp -r /repo/include/. %s/include/' % t)
            rc, out = sh('patch -s -p1 < %s' % pf, cwd=t)
            if rc != 0:
                meta['final_checks'] = {'error': 'patch no longer applies to /repo HEAD: ' + out[-200:]}
                json.dump(meta, open(os.path.join(d, 'meta.json'), 'w'), indent=1)
                summary.append((sid, 'PATCH-FAILS', []))
                continue
            final = {}
            for p in props:
                t0 = time.time()
                rc, out = sh('./check %s --tier quick' % p, cwd=VERIF, env={'AMC_REPO': t, 'VERIF_SEED': '1'})
                lines = out.splitlines()
                viol = [l for l in lines if l.startswith('VIOLATION')]
                msg = ''
                for i, l in enumerate(lines):
                    if l.startswith('VIOLATION') and i + 1 < len(lines):
                        msg = lines[i + 1].strip()[:300]
                        break
                final[p] = {'exit': rc, 'violations': len(viol), 'first_message': msg, 'wall_s': round(time.time() - t0)}
                # keep up to two minimal tapes as regression inputs (they must pass on the unchanged tree)
                kept = 0
                for l in viol:
                    path = l.split('replay=', 1)[-1].strip()
                    if kept >= 2 or not os.path.exists(path) or not path.endswith('.tape') or '/corpus/' in path:
                        continue
                    txt = open(path).read()
                    if 'config=c17_matrix' in txt or 'config=absence' in txt or 'config=bfs_' in txt:
                        continue
                    dst = os.path.join(VERIF, 'corpus', 'regress', p)
                    os.makedirs(dst, exist_ok=True)
                    first, rest = (txt.split('\n', 1) + [''])[:2]
                    open(os.path.join(dst, '%s-%d.tape' % (sid, kept)), 'w').write(first + '  [found with seeded change %s]\n' % sid + rest)
                    kept += 1
            meta['final_checks'] = final
            meta['detected_by'] = [p for p, c in final.items() if c['violations'] > 0]
            meta['final_checks_at'] = time.strftime('%Y-%m-%d %H:%M:%S')
            json.dump(meta, open(os.path.join(d, 'meta.json'), 'w'), indent=1)
            summary.append((sid, 'detected' if meta['detected_by'] else 'MISSED', meta['detected_by']))
        finally:
            shutil.rmtree(t, ignore_errors=True)
    for s in summary:
        print(*s)


if __name__ == '__main__':
    main()
