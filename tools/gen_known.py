#!/usr/bin/env python3
"""Regenerates the fixed: lines of KNOWN_FINDINGS.txt from the fix: commits of /repo (known: lines are kept as they are)."""
import os
import subprocess
ROOT = os.path.dirname(os.path.dirname(os.path.abspath(__file__)))
MAP = [('single-pass', 'C01'), ('insert/emplace with an argument', 'C10'), ('erase of an empty range', 'C02'), ('move assignment into an empty heap', 'C06'),
       ('SmallVector move assignment from an inline', 'C05'), ('swap2', 'C13'), ('emplace/emplace_back leaked', 'C08'), ('initializer list', 'C07'),
       ('insert(node)', 'C03'), ('removed duplicates', 'C03'), ('unstable sort', 'C03'), ('FlatSet::merge', 'C03'), ('SmallSet::erase', 'C11'),
       ('comparison operators', 'C04'), ('SmallSet::merge', 'C04'), ('operator==', 'C04'), ('insert of several elements in the middle', 'C09'),
       ('assign(n, v) leaked', 'C09'), ('shrink_to_fit terminated', 'C09'), ('uninitialized_default_construct_n', 'C15'), ('FixedCapacityVector<T, 0>', 'C17'), ('FlatSet copy assignment', 'C09'), ('SmallSet lost elements when growing', 'C09'), ('SmallSet copy assignment', 'C09'), ('FlatSet::count with a heterogeneous key', 'C03'), ('wrapped around size() + count', 'C08'), ('leaked the newly allocated storage', 'C09'), ('shift_right leaked', 'C09'),
       ('leaked their temporary element', 'C09'), ('lost its dynamic storage', 'C09'), ('no longer triggers -Wterminate', 'C09')]
log = subprocess.run(['git', '-C', '/repo', 'log', '--format=%h %s', 'bf6ad16..HEAD'], capture_output=True, text=True).stdout.strip().splitlines()
p = os.path.join(ROOT, 'KNOWN_FINDINGS.txt')
old = open(p).read().splitlines() if os.path.exists(p) else []
head = [l for l in old if l.startswith('#')]
known = [l for l in old if l.startswith('known:')]
out = head + ['']
for l in reversed(log):
    h, msg = l.split(' ', 1)
    if not msg.startswith('fix:'):
        continue
    prop = next((v for k, v in MAP if k in msg), 'C01')
    out.append('fixed: property=%s %s %s' % (prop, h, msg[5:]))
out += known
open(p, 'w').write('\n'.join(out) + '\n')
print('\n'.join(out[-8:]))
