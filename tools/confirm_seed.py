#!/usr/bin/env python3
"""confirm_seed.py <agent OUT/k dir> <seed id> <property> [more properties to run]
Confirms a seeded change independently (scratch worktree outside /repo and /verif), stores it under /verif/seeded/<seed id>/ and runs checks against it."""
import json
import os
import shutil
import subprocess
import sys
import time

VERIF = os.path.dirname(os.path.dirname(os.path.abspath(__file__)))


def sh(cmd, cwd=None, timeout=3600, env=None):
    e = dict(os.environ)
    if env:
        e.update(env)
    r = subprocess.run(cmd, shell=True, cwd=cwd, capture_output=True, text=True, timeout=timeout, env=e, errors='replace')
    return r.returncode, r.stdout + r.stderr


def main():
    src, sid, prop = sys.argv[1], sys.argv[2], sys.argv[3]
    others = sys.argv[4:]
    wt = '/tmp/cf/%s' % sid
    sh('git -C /repo worktree remove --force %s' % wt)
    shutil.rmtree(wt, ignore_errors=True)
    os.makedirs('/tmp/cf', exist_ok=True)
    rc, out = sh('git -C /repo worktree add -q %s HEAD' % wt)
    if rc != 0:
        print('worktree failed', out)
        return 2
    res = {'seed': sid, 'property': prop, 'confirmed_at': time.strftime('%Y-%m-%d %H:%M:%S')}
    try:
        demo = os.path.join(src, 'run_demo.sh')
        # the agent's script may contain its own worktree path: run it from a copy with paths rewritten
        work = '/tmp/cf/%s_demo' % sid
        shutil.rmtree(work, ignore_errors=True)
        shutil.copytree(src, work)
        rc0, out0 = sh('sh run_demo.sh %s/include' % wt, cwd=work, timeout=900)
        res['demo_on_original_rc'] = rc0
        rc, out = sh('git apply %s/patch.diff' % os.path.abspath(src), cwd=wt)
        if rc != 0:
            res['error'] = 'patch does not apply: ' + out[-300:]
            print(json.dumps(res, indent=1))
            return 1
        rc1, out1 = sh('sh run_demo.sh %s/include' % wt, cwd=work, timeout=900)
        res['demo_with_change_rc'] = rc1
        res['demo_output_tail'] = out1[-400:]
        t0 = time.time()
        rc, out = sh('cmake -G Ninja -S . -B _build -DCMAKE_BUILD_TYPE=RelWithDebInfo -DGTest_DIR=/root/miniconda/lib/cmake/GTest -DAMC_ENABLE_BENCHMARKS=OFF > /dev/null 2>&1 '
                     '&& cmake --build _build -j8 2>&1 | tail -3 && ctest --test-dir _build -j8 --timeout 900 2>&1 | tail -4', cwd=wt, timeout=3600)
        res['tests_pass_with_change'] = ('100% tests passed' in out)
        res['tests_tail'] = out[-300:]
        res['tests_wall_s'] = round(time.time() - t0)
        ok = (rc0 == 0 and rc1 != 0 and res['tests_pass_with_change'])
        res['confirmed'] = ok
        # run our checks against the changed tree
        checks = {}
        for p in [prop] + others:
            t1 = time.time()
            rc, out = sh('./check %s --tier quick' % p, cwd=VERIF, env={'AMC_REPO': wt, 'VERIF_SEED': '1'}, timeout=7200)
            lines = [l for l in out.splitlines() if l.startswith(('VIOLATION', 'KNOWN', 'ERROR', 'BUILD')) or l.startswith(p + ' ')]
            viol = [l for l in lines if l.startswith('VIOLATION')]
            first_msg = ''
            ol = out.splitlines()
            for i, l in enumerate(ol):
                if l.startswith('VIOLATION') and i + 1 < len(ol):
                    first_msg = ol[i + 1].strip()[:300]
                    break
            checks[p] = {'exit': rc, 'violations': len(viol), 'first_message': first_msg, 'summary': lines[-1] if lines else out[-200:], 'wall_s': round(time.time() - t1)}
        res['checks'] = checks
        res['detected_by'] = [p for p, c in checks.items() if c['violations'] > 0]
        dst = os.path.join(VERIF, 'seeded', sid)
        if ok:
            os.makedirs(dst, exist_ok=True)
            for f in ('patch.diff', 'demo.cpp', 'run_demo.sh'):
                if os.path.exists(os.path.join(src, f)):
                    shutil.copy(os.path.join(src, f), os.path.join(dst, f))
            meta = {}
            try:
                meta = json.load(open(os.path.join(src, 'meta.json')))
            except Exception:
                pass
            meta.update({'breaks_property': prop, 'confirmation': {k: res[k] for k in ('demo_on_original_rc', 'demo_with_change_rc', 'tests_pass_with_change', 'confirmed_at')},
                         'what_was_run': 'scratch worktree of /repo HEAD: run_demo.sh on the original headers (exit 0), git apply patch.diff, run_demo.sh (non-zero), '
                                         'cmake+ctest of the existing suite (all pass); then AMC_REPO=<worktree> ./check <Cxx> --tier quick',
                         'checks': checks, 'detected_by': res['detected_by']})
            json.dump(meta, open(os.path.join(dst, 'meta.json'), 'w'), indent=1)
        print(json.dumps(res, indent=1))
    finally:
        sh('git -C /repo worktree remove --force %s' % wt)
        shutil.rmtree(wt, ignore_errors=True)
        shutil.rmtree('/tmp/cf/%s_demo' % sid, ignore_errors=True)
    return 0


if __name__ == '__main__':
    sys.exit(main())
