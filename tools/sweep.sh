#!/bin/sh
# usage: tools/sweep.sh <tier> seed... : every check for every seed on the real tree; prints failures and a summary
cd "$(dirname "$0")/.."
T=$1; shift
./check --setup | tail -1
for s in "$@"; do
  for p in $(./check --list); do
    out=$(VERIF_SEED=$s ./check $p --tier $T 2>&1); rc=$?
    if [ $rc -ne 0 ]; then echo "== seed=$s $p rc=$rc"; echo "$out" | grep -E "^(VIOLATION|KNOWN|ERROR|BUILD|  )" | head -6; for f in $(echo "$out" | grep -oE "replay=[^ ]+" | cut -d= -f2 | head -2); do echo "--- $f"; cat $f | head -30; done; fi
  done
  echo "seed $s done"
done
