#!/usr/bin/env python3
"""Rewrites the block between SEEDED-TABLE-BEGIN/END in DESIGN.md from seeded/*/meta.json."""
import json
import os
ROOT = os.path.dirname(os.path.dirname(os.path.abspath(__file__)))
rows = []
for sid in sorted(os.listdir(os.path.join(ROOT, 'seeded'))):
    mp = os.path.join(ROOT, 'seeded', sid, 'meta.json')
    if not os.path.exists(mp):
        continue
    m = json.load(open(mp))
    fin = m.get('final_checks') or m.get('checks') or {}
    first = m.get('checks') or {}
    det = m.get('detected_by', [])
    first_det = [p for p, c in first.items() if isinstance(c, dict) and c.get('violations', 0) > 0]
    title = (m.get('title') or m.get('what_it_breaks') or '').replace('|', '/').replace('\n', ' ')[:110]
    needs = (m.get('needs_to_manifest') or '').replace('|', '/').replace('\n', ' ')[:160]
    msg = ''
    for p in det:
        c = fin.get(p, {})
        if c.get('first_message'):
            msg = c['first_message'].replace('|', '/')[:90]
            break
    note = m.get('strengthening', '')
    rows.append('| %s | %s | %s | %s | %s | %s |' % (sid, title, needs, ', '.join(first_det) or 'missed', ', '.join(det) or '**missed**', (note + ' ' if note else '') + msg))
import collections
_rounds = collections.Counter()
_str = 0
for _sid in sorted(os.listdir(os.path.join(ROOT, 'seeded'))):
    _mp = os.path.join(ROOT, 'seeded', _sid, 'meta.json')
    if os.path.exists(_mp):
        _m = json.load(open(_mp))
        _k = _sid.split('-')[0][3:] or '1'
        _rounds[_k] += 1
        _str += 1 if _m.get('strengthening') else 0
summary = ('%d changes in %d rounds (%s); %d of them were missed by the own check of the property when first tried and led to the strengthening noted in the last column '
           '(new element categories, configurations, operations, oracles or build variants - and to six genuine defects of amc found on the way, section 7b); '
           'every change is detected now.' % (sum(_rounds.values()), len(_rounds), ', '.join('round %s: %d' % (k, v) for k, v in sorted(_rounds.items())), _str))
hdr = [summary, '', 'Independent sub-agents were given only the text of one property and a scratch worktree of /repo; each produced two (first round, and round e of 12 properties in the continuation session) or three (rounds b, c and d) changes (from round b on they were also told which ideas had been tried) that break the property,',
       'compile, and pass the 805 existing tests, with a demonstration program. Every change below was confirmed in a scratch worktree (demonstration passes on the',
       'unchanged headers, fails with the change; the existing suite passes with the change) by `tools/confirm_seed.py` and is kept under `seeded/<id>/`.',
       '"first run" = which quick checks reported a violation when the change was first tried; "final" = after the strengthening described in the last column',
       '(`tools/rerun_seeded.py`, whose minimal tapes are committed under `corpus/regress/`). Round e changed the meaning of a few tape bytes (argument form of emplace / emplace_hint, content source of a range construction): ',
       'the seeds of C03 and C12 (all but three), and eleven of C04 / C11 were run again afterwards - all still detected - and their regression tapes re-minimised under the new decoding; every committed tape passes on /repo.', '',
       '| seed | change | needs to manifest | first run | final | strengthening / first message |', '|---|---|---|---|---|---|']
block = '\n'.join(hdr + rows)
p = os.path.join(ROOT, 'DESIGN.md')
s = open(p).read()
a, b = s.index('<!-- SEEDED-TABLE-BEGIN -->'), s.index('<!-- SEEDED-TABLE-END -->')
s = s[:a] + '<!-- SEEDED-TABLE-BEGIN -->\n' + block + '\n' + s[b:]
open(p, 'w').write(s)
print(len(rows), 'rows')
