#!/bin/sh
# Sensitivity self-test on the hand-written mutants (mutants/*.diff): each must make the quick check of its property report a violation.
# (the seeded changes of sub-agents are re-run with tools/rerun_seeded.py)
cd "$(dirname "$0")/.."
rc=0
while read m p; do
  out=$(tools/try_patch.sh mutants/$m $p 2>&1)
  if echo "$out" | grep -q "^VIOLATION property=$p"; then echo "ok   $m caught by $p"; else echo "MISS $m not caught by $p"; rc=1; fi
done <<LIST
m01_growth_plus_one.diff C18
m02_linear_lower_bound.diff C19
m03_swap_noexcept_and.diff C17
m04_sizetype_255_off_by_one.diff C17
m05_mutable_cache_in_find.diff C20
LIST
exit $rc
