#!/bin/sh
# runs every quick (or $1) check on the real tree; prints one summary line per property
cd "$(dirname "$0")/.."
T=${1:-quick}
for p in $(./check --list); do
  s=$(date +%s)
  out=$(./check $p --tier $T 2>&1); rc=$?
  echo "$p rc=$rc $(echo "$out" | grep -E "^C[0-9]+ " | tail -1) [$(( $(date +%s) - s ))s]"
  echo "$out" | grep -E "^(VIOLATION|KNOWN|ERROR|BUILD)" | head -5
done
