#!/bin/sh
# usage: tools/run_some.sh <tier> Cxx... 
cd "$(dirname "$0")/.."
T=$1; shift
for p in "$@"; do
  s=$(date +%s)
  out=$(./check $p --tier $T 2>&1); rc=$?
  echo "$p rc=$rc $(echo "$out" | grep -E "^C[0-9]+ " | tail -1) [$(( $(date +%s) - s ))s]"
  echo "$out" | grep -E "^(VIOLATION|KNOWN|ERROR|BUILD|  )" | head -6
done
