#!/bin/sh
# usage: tools/try_patch.sh [-R] <patch.diff> <Cxx> [<Cxx>...]   - run checks against a scratch copy of /repo with the patch applied
REV=""
if [ "$1" = "-R" ]; then REV="-R"; shift; fi
PATCH=$(readlink -f "$1"); shift
T=$(mktemp -d /tmp/amc-mut-XXXXXX)
mkdir -p $T/include && cp -r /repo/include/. $T/include/
( cd $T && patch -s $REV -p1 < "$PATCH" ) || { echo "patch failed"; rm -rf $T; exit 3; }
cd "$(dirname "$0")/.."
for c in "$@"; do
  echo "--- $c on patched tree"
  AMC_REPO=$T ./check $c --tier quick 2>&1 | grep -E "^(VIOLATION|KNOWN|C[0-9]+ |ERROR|BUILD)" | cut -c1-220 | head -8
  echo "exit=$?"
done
rm -rf $T
