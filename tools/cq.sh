#!/bin/sh
# usage: tools/cq.sh <prop> [extra props]  - queue confirmation of both seeds of an agent (serialised with flock)
P=$1; shift
mkdir -p /tmp/cflogs
for k in 1 2; do
  if [ -f /tmp/wt/$P/OUT/$k/patch.diff ]; then
    ( flock /tmp/cf.lock python3 /verif/tools/confirm_seed.py /tmp/wt/$P/OUT/$k $P-$k $P "$@" > /tmp/cflogs/$P-$k.json 2>&1 ) &
  fi
done
