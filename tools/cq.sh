#!/bin/sh
# usage: [LANE=a|b] tools/cq.sh <worktree name, e.g. C05 or C05b> [extra props]  - queue confirmation of the seeds of an agent (serialised per lane with flock)
W=$1; shift
P=$(echo $W | cut -c1-3)
L=${LANE:-a}
mkdir -p /tmp/cflogs
for k in 1 2 3; do
  if [ -f /tmp/wt/$W/OUT/$k/patch.diff ]; then
    ( flock /tmp/cf.lock.$L python3 /verif/tools/confirm_seed.py /tmp/wt/$W/OUT/$k $W-$k $P "$@" > /tmp/cflogs/$W-$k.json 2>&1 ) &
  fi
done
