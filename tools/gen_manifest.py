#!/usr/bin/env python3
"""Regenerates MANIFEST.json from the table below (claimed checks) - run after adding a check."""
import json
import os
import sys

ROOT = os.path.dirname(os.path.dirname(os.path.abspath(__file__)))
sys.path.insert(0, ROOT)
from vf import props as P  # noqa: E402

INFO = {
    'C01': ('exploration', 'Generated operation histories (rapidcheck; libFuzzer in the thorough tier) over 45 container configurations (9 of them also as C++11/14/20; element kinds incl. copy-only and move-only) are run against a std::vector<int> reference model compared after every operation, with ASan/UBSan and assertions on. Held on everything explored; not a proof.', '3/C01',
            'model-based stateful property testing (rapidcheck tapes, std::vector reference model)'),
    'C02': ('exploration', 'The same histories with identity-tracking element types (cell table = exactly-once destruction, self pointer + address registry = no bitwise move of non relocatable types, magic = no use outside lifetime), in C++11/14/17/20 builds, under ASan/UBSan.', '3/C02',
            'model-based stateful property testing with an object-lifetime ledger oracle'),
    'C05': ('exploration', 'Histories under a within-N discipline; per-container flag tracks whether the inline promise still applies; oracle = allocator-request counter, malloc hook, capacity()==N, all inline slots inside the object; SmallVector/FixedCapacityVector configurations also as C++11/14/20, SmallSets up to N=20.', '3/C05',
            'stateful property testing with allocation counters (allocator ledger + sanitizer malloc hook)'),
    'C06': ('exploration', 'Generated histories on three instrumented allocator kinds (pointer->count ledger: exact count on deallocate/reallocate, exactly once, nothing outstanding, reallocate only for trivially relocatable types, capacity word == block size after every op), growing calls under allocation failure, self move assignment, the swap2 pair grid across allocator and size types, and a complete small grid for BasicAllocatorWrapper::reallocate.', '3/C06, 10',
            'stateful property testing with an allocation-ledger oracle; small exhaustive grid for reallocate'),
    'C07': ('exploration', 'Generated histories with snapshots of data(), capacity(), element identities around every operation (std::vector invalidation rules as predicates) and the swap2 pair grid for size() <= capacity().', '3/C07, 10',
            'stateful property testing with before/after snapshot predicates'),
    'C03': ('exploration', 'Generated histories over pools of FlatSets (5 comparators x 4 underlying vector types x 4 element kinds) against std::set<int,ModelCmp>: exact element sequence, strict ordering under the set\'s own comparator object, every returned bool/count/position/node compared after each operation.', '3/C03',
            'model-based stateful property testing (std::set reference model)'),
    'C08': ('exploration', 'Complete grid at the limit (FixedCapacityVector N in {1,2,3,7,15}; 8-bit size types; uint16 sampled): 24 growing operations x positions x counts incl. values that overflow 8/16/32/64-bit size arithmetic, swap2 across size types at the limit, at() grid; plus limit probes inside generated histories. Oracle: documented exception type and a byte-for-byte unchanged container (contents, size, capacity, data(), identities, live objects, blocks), follow-up operations.', '3/C08, 10',
            'bounded-exhaustive grid + property testing with generated limit probes and an unchanged-snapshot oracle'),
    'C10': ('exploration', 'Complete grid (size x position x source index x count x spare capacity x 10 call forms incl. arguments constructed from a pointer to an element x 6 flavours x 6 element categories) against copy-first-then-call on std::vector; the same calls inside generated histories.', '3/C10, 10',
            'bounded-exhaustive grid + model-based property testing of aliasing calls'),
    'C13': ('exploration', 'Every ordered pair of 9 vector flavours x 4 element categories x operand recipes (empty, inline partial, inline exactly full, heap with spare, heap emptied) x sizes incl. 200/255/256/300: exchanged exactly or thrown with both unchanged, never std::terminate; ledgers, follow-up operations; plus same-type swap2 in generated histories.', '3/C13, 10',
            'bounded-exhaustive pair grid + model-based property testing of swap2'),
    'C14': ('exploration', 'Generated histories with a RELOCATE step (memcpy the container object to fresh storage, poison and free the source) on every container type declaring trivially_relocatable (vectors, FlatSet, FlatSet-backed SmallSet); vector histories also as C++11/14/20; a static table checks that no container claims the trait when an element type or comparator is not relocatable.', '3/C14, 10',
            'stateful property testing with injected byte-wise relocation; static trait table'),
    'C04': ('exploration', 'Bounded-exhaustive search over the abstract states (content, inline/large, node handle) of a SmallSet for small N and k=N+2 keys with every operation of an alphabet applied from every state, plus generated histories over pools of SmallSets (N up to 8, 5 comparators, std::set and FlatSet backings, siblings of another N/comparator) against std::set<int,ModelCmp>; libFuzzer in the thorough tier.', '3/C04, 10',
            'bounded-exhaustive state search + model-based stateful property testing (std::set reference model)'),
    'C11': ('exploration', 'The C04 bounded-exhaustive state search and SmallSet histories with erase(pos)/erase(range)/erase-while-iterating weighted up; after every operation forward and reverse walks must visit exactly the model elements once (operator* and operator->, it++/it--/--it return values, postfix backward walk), returned iterators equal end() iff they designate nothing, the standard erase loop terminates having visited every element once.', '3/C11, 10',
            'bounded-exhaustive state search + stateful property testing of the iterator contract'),
    'C09': ('fault_enumeration', 'For every scenario of a complete small grid and for generated larger scenarios, a dry run counts the fault points inside the call and the scenario is re-run once per fault index k with that element construction/copy/assignment or allocator request throwing (vector flavours x elements with throwing copies and noexcept moves, and a copy-only element whose every move is a throwing copy); generated FlatSet and SmallSet histories with the k-th fault armed, and vector histories with failing allocations. Basic guarantee always, strong guarantee for the documented operations. Single faults, complete over k for the grid.', '3/C09, 10',
            'fault injection enumerated over every throw index, ledger + snapshot oracles'),
    'C12': ('exploration', 'Complete enumeration of contents (all subsets of k keys) x hint positions x values x call forms for 11 comparator/vector/element configurations, metamorphic oracle hinted == plain insertion == std::set; plus hinted insertions inside generated FlatSet histories.', '3/C12',
            'bounded-exhaustive enumeration with a metamorphic oracle'),
    'C18': ('exploration', 'Counter-based check of the stated bounds over a grid of n, start states and configurations: capacity changes, relocated elements, allocator requests, growth factor (one-by-one and bulk growing operations), reserve/shrink_to_fit post-conditions incl. buffers taken over from a vector; the factor predicate also inside generated vector histories.', '3/C18',
            'generated grid with counting oracles (reallocations, relocations, allocator requests)'),
    'C19': ('exploration', 'Comparator-call counting for every key rank of FlatSets of every size up to 400 and around powers of two up to 4096 (65536 thorough), heterogeneous keys equivalent to runs of elements, every correct hint, SmallSet inline lookups and position searches for every fill and beyond N, hinted insertion of a large SmallSet; builds with and without assertions.', '3/C19',
            'generated grid with a comparator-call counting oracle'),
    'C15': ('fault_enumeration', 'Every memory.hpp algorithm x length 0..8 (plus seed-derived longer lengths) x source iterator category x destination kind x element category (incl. move-only / throwing-move / copy-noexcept kinds) x every throw index, construct_at on arrays, converting source/destination types, constructor overload choice, each built as C++11/14/17/20 so that the emulations and the std:: forwarding are both executed; reference semantics + ledger + canaries.', '3/C15',
            'bounded-exhaustive enumeration with fault injection at every throw index, 4 language standards'),
    'C16': ('exploration', 'Differential testing: seed-generated tapes replayed by interpreters built in 8 (quick) / 32 (thorough) build configurations; transcripts (incl. strong-guarantee calls under injected faults) must be byte-identical; absence of extras / SmallSet probed at compile time; a table of compile-time facts (sizeof, noexcept, traits) must be identical in every build.', '3/C16',
            'differential testing of generated scripts across build configurations'),
    'C17': ('exploration', 'A generated matrix of element types and N; the compiler evaluates the static facts, an independent formula derived from the statement predicts them; 4 language standards with g++ 12 plus clang++ 14 as a second compiler.', '3/C17',
            'generated configuration matrix evaluated by the compiler against an independent oracle formula'),
    'C20': ('exploration', 'Generated multi-threaded reader programs (plus writer threads running the mutating interface on their own containers) under ThreadSanitizer with result comparison against single-threaded execution. Schedules are sampled, not owned by the harness.', '3/C20',
            'generated concurrent reader programs under ThreadSanitizer (sampled schedules)'),
}
NOTE = 'Trusted base: libstdc++ reference containers, the harness (harness/*.hpp), g++ 12 sanitizers, rapidcheck. Checks rebuild against /repo/include (content hash) on every run.'


def main():
    props = [json.loads(l)['id'] for l in open(os.path.join(ROOT, 'properties.jsonl'))]
    checks = []
    for p in props:
        if p in P.CHECKS and p in INFO:
            lvl, text, ref, tech = INFO[p]
            checks.append({'property_id': p, 'quick_cmd': './check %s --tier quick' % p, 'thorough_cmd': './check %s --tier thorough' % p,
                           'evidence_file': 'evidence/%s.json' % p, 'replay_cmd_template': './check %s --replay {path}' % p,
                           'engine': 'vf', 'level_claimed': {'category': lvl, 'text': text, 'design_ref': 'DESIGN.md section ' + ref},
                           'level_note': NOTE, 'technique': tech})
    na = [{'property_id': p, 'reason': 'check under construction in this framework (not yet claimed); no technique switch intended'}
          for p in props if p not in P.CHECKS or p not in INFO]
    m = {'version': 1, 'setup_cmd': './check --setup',
         'hooks': {'guard': 'AMC_VERIF_HOOKS', 'enable': 'no hooks are needed: checks compile the harness against /repo/include directly',
                   'baseline_off_cmd': 'cmake --build /repo/_build -j16 && ctest --test-dir /repo/_build -j8 --timeout 900', 'source_commits': [], 'add_only': True},
         'engines': [{'name': 'vf', 'path': 'check', 'serves_properties': sorted(P.CHECKS),
                      'kind_free_text': 'python driver + C++ tape interpreters; rapidcheck generation/shrinking, libFuzzer, bounded-exhaustive enumerators'}],
         'checks': checks, 'not_applicable': na,
         'notes': 'See DESIGN.md. KNOWN_FINDINGS.txt lists fixed and known defects.'}
    json.dump(m, open(os.path.join(ROOT, 'MANIFEST.json'), 'w'), indent=1)
    print('claimed:', [c['property_id'] for c in checks])


main()
