#!/usr/bin/env python3
"""Regenerates MANIFEST.json from the table below (claimed checks) - run after adding a check."""
import json
import os
import sys

ROOT = os.path.dirname(os.path.dirname(os.path.abspath(__file__)))
sys.path.insert(0, ROOT)
from vf import props as P  # noqa: E402

INFO = {
    'C01': ('exploration', 'Generated operation histories (rapidcheck; libFuzzer in the thorough tier) over ~37 container configurations are run against a std::vector<int> reference model compared after every operation, with ASan/UBSan and assertions on. Held on everything explored; not a proof.', '3/C01',
            'model-based stateful property testing (rapidcheck tapes, std::vector reference model)'),
    'C02': ('exploration', 'The same histories with identity-tracking element types (cell table = exactly-once destruction, self pointer + address registry = no bitwise move of non relocatable types, magic = no use outside lifetime), in C++11/14/17/20 builds, under ASan/UBSan.', '3/C02',
            'model-based stateful property testing with an object-lifetime ledger oracle'),
    'C05': ('exploration', 'Histories under a within-N discipline; per-container flag tracks whether the inline promise still applies; oracle = allocator-request counter, malloc hook, capacity()==N, data() inside the object.', '3/C05',
            'stateful property testing with allocation counters (allocator ledger + sanitizer malloc hook)'),
    'C06': ('exploration', 'Histories on three instrumented allocator kinds; oracle = pointer->count ledger (exact count on deallocate/reallocate, exactly once, nothing outstanding at the end, reallocate only for trivially relocatable types).', '3/C06',
            'stateful property testing with an allocation-ledger oracle'),
    'C07': ('exploration', 'Histories with snapshots of data(), capacity(), element addresses/identities around every operation; oracle = std::vector invalidation rules as predicates.', '3/C07',
            'stateful property testing with before/after snapshot predicates'),
    'C03': ('exploration', 'Generated histories over pools of FlatSets (5 comparators x 4 underlying vector types x 4 element kinds) against std::set<int,ModelCmp>: exact element sequence, strict ordering under the set\'s own comparator object, every returned bool/count/position/node compared after each operation.', '3/C03',
            'model-based stateful property testing (std::set reference model)'),
    'C08': ('exploration', 'Limit probes embedded in generated histories: the container is filled to the neighbourhood of N / size_type max, a growing call sized to exceed it must throw the documented exception type and leave contents, size, capacity, data(), element identities, live-object and block counts unchanged; at() probes.', '3/C08',
            'property testing with generated limit probes and unchanged-snapshot oracle'),
    'C10': ('exploration', 'The eight aliasing call forms (argument = reference to an own element) in generated histories, against copy-first-then-call on std::vector.', '3/C10',
            'model-based property testing of aliasing calls'),
    'C13': ('exploration', 'swap2 in generated histories (same-type operands in every storage state) against exchanged std::vector models, with ledgers.', '3/C13',
            'model-based property testing of swap2'),
    'C14': ('exploration', 'Generated histories with a RELOCATE step (memcpy the container object to fresh storage, poison and free the source) on every container type declaring trivially_relocatable; model and ledgers continue on the copy.', '3/C14',
            'stateful property testing with injected byte-wise relocation'),
    'C04': ('exploration', 'Generated histories over pools of SmallSets (N in {1,2,3,4,5,8}, 5 comparators, std::set and FlatSet backings, sibling sets with another N and comparator) against std::set<int,ModelCmp>: contents as sets, membership of every key, booleans, counts, all six comparisons after every operation.', '3/C04',
            'model-based stateful property testing (std::set reference model)'),
    'C11': ('exploration', 'The SmallSet histories with erase(pos)/erase(range)/erase-while-iterating weighted up; after every operation forward and reverse walks must visit exactly the model elements once, returned iterators equal end() iff they designate nothing, the standard erase loop must terminate having visited every element once.', '3/C11',
            'stateful property testing of the iterator contract against a reference model'),
    'C09': ('fault_enumeration', 'For every scenario of a complete small grid (25 operations x sizes x positions x counts x range kinds x spare/tight capacity x inline/heap) and for rapidcheck-generated larger scenarios, a dry run counts the fault points inside the call and the scenario is re-run once per fault index k with that element construction/copy/assignment or allocator request throwing; basic guarantee always, strong guarantee for the documented operations. Single faults, complete over k.', '3/C09',
            'fault injection enumerated over every throw index, ledger + snapshot oracles'),
    'C12': ('exploration', 'Complete enumeration of contents (all subsets of k keys) x hint positions x values x call forms for 11 comparator/vector/element configurations, metamorphic oracle hinted == plain insertion == std::set; plus hinted insertions inside generated FlatSet histories.', '3/C12',
            'bounded-exhaustive enumeration with a metamorphic oracle'),
    'C18': ('exploration', 'Counter-based check of the stated bounds over a grid of n, start states and configurations: capacity changes, relocated elements, allocator requests, growth factor, reserve/shrink_to_fit post-conditions.', '3/C18',
            'generated grid with counting oracles (reallocations, relocations, allocator requests)'),
    'C19': ('exploration', 'Comparator-call counting for every key rank of FlatSets of every size up to 300 and around powers of two, every correct hint, and SmallSet inline lookups for every fill.', '3/C19',
            'generated grid with a comparator-call counting oracle'),
    'C15': ('fault_enumeration', 'Every memory.hpp algorithm x length 0..8 (plus seed-derived longer lengths) x source iterator category x destination kind x element category x every throw index, each built as C++11/14/17/20 so that the emulations and the std:: forwarding are both executed; reference semantics + ledger + canaries.', '3/C15',
            'bounded-exhaustive enumeration with fault injection at every throw index, 4 language standards'),
    'C16': ('exploration', 'Differential testing: seed-generated tapes replayed by interpreters built in 8 (quick) / 32 (thorough) build configurations; transcripts must be byte-identical; absence of extras / SmallSet probed at compile time.', '3/C16',
            'differential testing of generated scripts across build configurations'),
    'C17': ('exploration', 'A generated matrix of element types and N; the compiler evaluates the static facts, an independent formula derived from the statement predicts them; 4 language standards.', '3/C17',
            'generated configuration matrix evaluated by the compiler against an independent oracle formula'),
    'C20': ('exploration', 'Generated multi-threaded reader programs under ThreadSanitizer with result comparison against single-threaded execution. Schedules are sampled, not owned by the harness.', '3/C20',
            'generated concurrent reader programs under ThreadSanitizer (sampled schedules)'),
}
NOTE = 'Trusted base: libstdc++ reference containers, the harness (harness/*.hpp), g++ 12 sanitizers, rapidcheck. Checks rebuild against /repo/include (content hash) on every run.'


def main():
    props = [json.loads(l)['id'] for l in open(os.path.join(ROOT, 'properties.jsonl'))]
    checks = []
    for p in props:
        if p in P.CHECKS and p in INFO:
            lvl, text, ref, tech = INFO[p]
            checks.append({'property_id': p, 'quick_cmd': './check %s --tier quick' % p, 'thorough_cmd': './check %s --tier thorough' % p,
                           'evidence_file': 'evidence/%s.json' % p, 'replay_cmd_template': './check %s --replay {path}' % p,
                           'engine': 'vf', 'level_claimed': {'category': lvl, 'text': text, 'design_ref': 'DESIGN.md section ' + ref},
                           'level_note': NOTE, 'technique': tech})
    na = [{'property_id': p, 'reason': 'check under construction in this framework (not yet claimed); no technique switch intended'}
          for p in props if p not in P.CHECKS or p not in INFO]
    m = {'version': 1, 'setup_cmd': './check --setup',
         'hooks': {'guard': 'AMC_VERIF_HOOKS', 'enable': 'no hooks are needed: checks compile the harness against /repo/include directly',
                   'baseline_off_cmd': 'cmake --build /repo/_build -j16 && ctest --test-dir /repo/_build -j8 --timeout 900', 'source_commits': [], 'add_only': True},
         'engines': [{'name': 'vf', 'path': 'check', 'serves_properties': sorted(P.CHECKS),
                      'kind_free_text': 'python driver + C++ tape interpreters; rapidcheck generation/shrinking, libFuzzer, bounded-exhaustive enumerators'}],
         'checks': checks, 'not_applicable': na,
         'notes': 'See DESIGN.md. KNOWN_FINDINGS.txt lists fixed and known defects.'}
    json.dump(m, open(os.path.join(ROOT, 'MANIFEST.json'), 'w'), indent=1)
    print('claimed:', [c['property_id'] for c in checks])


main()
