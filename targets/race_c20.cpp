// race_c20.cpp - C20: generated reader programs over one shared const container, writers on distinct containers, under ThreadSanitizer.
// A tape = [setup op][thread ops...]; every reader thread's results must equal the single-threaded results; TSan must stay silent.
#include <atomic>
#if __cplusplus >= 202002L
#include <compare>
#endif
#include <cstdlib>
#include <set>
#include <thread>
#include <vector>

#include <amc/fixedcapacityvector.hpp>
#include <amc/flatset.hpp>
#include <amc/smallset.hpp>
#include <amc/smallvector.hpp>
#include <amc/vector.hpp>

#include "interp_main.hpp"
#include "tape.hpp"
#include "vf_core.hpp"

using namespace vf;

#ifndef VF_RACE_NAME
#define VF_RACE_NAME "race_c20"
#endif

struct FooM {  // owns memory, like the test suite's Foo
  int *p;
  FooM(int v = 0) : p(static_cast<int *>(malloc(sizeof(int)))) { *p = v; }
  FooM(const FooM &o) : p(static_cast<int *>(malloc(sizeof(int)))) { *p = *o.p; }
  FooM(FooM &&o) noexcept : p(o.p) { o.p = nullptr; }
  FooM &operator=(const FooM &o) {
    if (this != &o) {
      if (!p) p = static_cast<int *>(malloc(sizeof(int)));
      *p = *o.p;
    }
    return *this;
  }
  FooM &operator=(FooM &&o) noexcept {
    std::swap(p, o.p);
    return *this;
  }
  ~FooM() { free(p); }
  int v() const { return *p; }
  friend bool operator==(const FooM &a, const FooM &b) { return a.v() == b.v(); }
  friend bool operator!=(const FooM &a, const FooM &b) { return a.v() != b.v(); }
#if __cplusplus >= 202002L
  friend std::strong_ordering operator<=>(const FooM &a, const FooM &b) { return a.v() <=> b.v(); }
#endif
  friend bool operator<(const FooM &a, const FooM &b) { return a.v() < b.v(); }
  friend bool operator>(const FooM &a, const FooM &b) { return a.v() > b.v(); }
  friend bool operator<=(const FooM &a, const FooM &b) { return a.v() <= b.v(); }
  friend bool operator>=(const FooM &a, const FooM &b) { return a.v() >= b.v(); }
};
static int valof(int x) { return x; }
static int valof(const FooM &x) { return x.v(); }

enum RaceFeat { RF_TWO_READERS_COMMON_OP = 0, RF_WRITERS, RF_COPY, RF_LOOKUP, RF_COMPARE, RF_HEAP, RF_LARGE_SET, RF_NFEAT };
static const char *race_feat_name(int i) {
  static const char *n[] = {"two_readers_share_an_op", "writer_threads_on_other_containers", "concurrent_copy_construction", "concurrent_lookup", "concurrent_comparison",
                            "heap_backed_or_large_state", "smallset_large"};
  return i < RF_NFEAT ? n[i] : 0;
}

static const int kRaceOps = 10;   // reader op kinds
static const int kKinds = 9;      // container kinds

template <class C> struct IsSet { static const bool value = false; };
template <class T, class Cm, class A, class V> struct IsSet<amc::FlatSet<T, Cm, A, V> > { static const bool value = true; };
template <class T, uintmax_t N, class Cm, class A, class S> struct IsSet<amc::SmallSet<T, N, Cm, A, S> > { static const bool value = true; };
template <class C> struct IsFlat { static const bool value = false; };
template <class T, class Cm, class A, class V> struct IsFlat<amc::FlatSet<T, Cm, A, V> > { static const bool value = true; };

template <class C>
static void fill(C &c, const std::vector<int> &vals) {
  typedef typename C::value_type E;
  if constexpr (IsSet<C>::value) {
    for (int v : vals) c.insert(E(v));
  } else {
    for (int v : vals) c.push_back(E(v));
  }
}

// builds the container; a FlatSet may adopt an unsorted vector with duplicates (FlatSet(vector_type&&))
template <class C>
static C build(const std::vector<int> &vals, bool adopt) {
  typedef typename C::value_type E;
  if constexpr (IsFlat<C>::value) {
    if (adopt) {
      typename C::vector_type v;
      for (size_t i = vals.size(); i > 0; --i) v.push_back(E(vals[i - 1]));
      if (!vals.empty()) v.push_back(E(vals[0]));
      return C(std::move(v));
    }
  }
  C c;
  fill(c, vals);
  return c;
}

// one const operation; returns a checksum of what it observed
template <class C>
static long reader_op(const C &c, const C &other, int kind, int arg) {
  typedef typename C::value_type E;
  long r = 0;
  switch (kind) {
    case 0: r = static_cast<long>(c.size()) + (c.empty() ? 1000 : 0); break;
    case 1: for (auto it = c.begin(); it != c.end(); ++it) r = r * 31 + valof(*it); break;
    case 2: {
      if constexpr (!IsSet<C>::value) {
        if (!c.empty()) r = valof(c[static_cast<typename C::size_type>(arg % c.size())]) + valof(c.front()) + valof(c.back());
      } else {
        r = static_cast<long>(c.count(E(arg % 40)));
      }
      break;
    }
    case 3: {
      if constexpr (!IsSet<C>::value) {
        try {
          r = valof(c.at(static_cast<typename C::size_type>(arg % (c.size() + 2))));
        } catch (const std::out_of_range &) {
          r = -7;
        }
      } else {
        r = c.contains(E(arg % 40)) ? 1 : 0;
      }
      break;
    }
    case 4: {
      if constexpr (IsSet<C>::value) {
        auto it = c.find(E(arg % 40));
        r = it == c.end() ? -1 : valof(*it);
      } else {
        for (auto it = c.rbegin(); it != c.rend(); ++it) r = r * 17 + valof(*it);
      }
      break;
    }
    case 5: {
      if constexpr (IsFlat<C>::value) {
        r = (c.lower_bound(E(arg % 40)) - c.begin()) * 100 + (c.upper_bound(E(arg % 40)) - c.begin());
        auto er = c.equal_range(E(arg % 40));
        r = r * 10 + (er.second - er.first);
      } else {
        r = static_cast<long>(c.max_size() > 0);
      }
      break;
    }
    case 6: r = (c == other ? 1 : 0) + (c != other ? 2 : 0); break;
    case 7: r = (c < other ? 1 : 0) + (c <= other ? 2 : 0) + (c > other ? 4 : 0) + (c >= other ? 8 : 0); break;
    case 8: {  // copy construction from the shared container
      C copy(c);
      for (auto it = copy.begin(); it != copy.end(); ++it) r = r * 13 + valof(*it);
      r += static_cast<long>(copy.size());
      break;
    }
    default: {
      if constexpr (!IsSet<C>::value) {
        r = (c.data() == c.begin() ? 1 : 0) + static_cast<long>(c.capacity() >= c.size());
      } else {
        r = 0;
        for (auto it = c.rbegin(); it != c.rend(); ++it) r = r * 19 + valof(*it);
      }
      break;
    }
  }
  return r;
}

struct ThreadProg {
  std::vector<std::pair<int, int> > ops;  // (kind, arg)
  int spin;
};

// single-pass source producing E(v), E(v+1), ...
template <class E>
struct CountIt {
  typedef std::input_iterator_tag iterator_category;
  typedef E value_type;
  typedef std::ptrdiff_t difference_type;
  typedef const E *pointer;
  typedef E reference;
  int v;
  E operator*() const { return E(v); }
  CountIt &operator++() { ++v; return *this; }
  CountIt operator++(int) { CountIt t(*this); ++v; return t; }
  friend bool operator==(const CountIt &a, const CountIt &b) { return a.v == b.v; }
  friend bool operator!=(const CountIt &a, const CountIt &b) { return a.v != b.v; }
};

// a writer owns two container objects nobody else touches and runs every kind of mutating and comparing operation on them
template <class C>
static void writer_body(int rounds, int seedv) {
  typedef typename C::value_type E;
  C mine, other;
  long sink = 0;
  for (int r = 0; r < rounds; ++r) {
    const int v = (seedv + r * 7) % 40;
    if constexpr (IsSet<C>::value) {
      switch (r % 8) {
        case 0: mine.insert(E(v)); break;
        case 1: mine.emplace(v + 1); break;
        case 2: mine.insert(mine.begin(), E(v + 2)); break;
        case 3: other.insert(E(v)); other.emplace_hint(other.end(), v + 3); other.insert(CountIt<E>{v % 30}, CountIt<E>{v % 30 + 3}); break;
        case 4: sink += (mine == other) + (mine < other); break;
        case 5: if (!mine.empty()) mine.erase(mine.begin()); break;
        case 6: mine.erase(E((seedv + r) % 40)); sink += static_cast<long>(mine.count(E(v))); break;
        default: mine.swap(other); if (other.size() > 6) other.clear(); break;
      }
    } else {
      const long sz = static_cast<long>(mine.size());
      switch (r % 10) {
        case 0: case 1: if (sz < 12) mine.push_back(E(seedv + r)); break;
        case 2: if (sz < 12) mine.emplace(mine.begin() + sz / 2, seedv + r); break;
        case 3: if (sz < 12) mine.insert(mine.begin() + sz / 2, E(seedv)); break;
        case 4:
          if (sz < 10 && (r / 10) % 2 == 0) mine.insert(mine.begin(), 2, E(r));
          else if (sz < 10) mine.insert(mine.begin() + sz / 2, CountIt<E>{r}, CountIt<E>{r + 2});  // single-pass range, not at the end
          break;
        case 5: if (sz > 0) mine.erase(mine.begin() + sz / 2); break;
        case 6: other.assign(static_cast<typename C::size_type>(3 + (r / 10) % 7), E(r)); sink += (mine == other) + (mine < other); break;  // 3..9: the common prefix of the swap below varies
        case 7: mine.swap(other); break;
        case 8:
          try {
            sink += valof(mine.at(static_cast<typename C::size_type>(sz + (r % 2))));
          } catch (const std::out_of_range &) {
            --sink;
          }
          break;
        default: if (sz > 8) mine.resize(3); else if (sz > 0) mine.pop_back(); break;
      }
    }
  }
  if (sink == 0x7fffffff) fprintf(stderr, " ");
}

template <class C>
static bool run_case(const std::vector<int> &vals, const std::vector<int> &ovals, const std::vector<ThreadProg> &progs, int nwriters, int rounds, bool adopt = false) {
  // the shared objects are not touched by anything before the threads start (their very first const accesses run concurrently);
  // the expected results come from twins built the same way
  C shared_c(build<C>(vals, adopt)), other_c(build<C>(ovals, adopt));
  const C &c = shared_c;
  const C &o = other_c;
  std::vector<std::vector<long> > expect(progs.size());
  {
    C twin_c(build<C>(vals, adopt)), twin_o(build<C>(ovals, adopt));
    const C &tc = twin_c;
    const C &to = twin_o;
    for (size_t t = 0; t < progs.size(); ++t)
      for (size_t k = 0; k < progs[t].ops.size(); ++k) expect[t].push_back(reader_op(tc, to, progs[t].ops[k].first, progs[t].ops[k].second));
  }
  std::vector<std::vector<long> > got(progs.size());
  std::vector<int> bad(progs.size(), 0);
  std::atomic<int> go(0);
  std::vector<std::thread> th;
  for (size_t t = 0; t < progs.size(); ++t) {
    th.emplace_back([&, t] {
      while (go.load(std::memory_order_acquire) == 0) std::this_thread::yield();
      for (volatile int s = 0; s < progs[t].spin; ++s) {
      }
      for (int r = 0; r < rounds; ++r) {
        for (size_t k = 0; k < progs[t].ops.size(); ++k) {
          long v = reader_op(c, o, progs[t].ops[k].first, progs[t].ops[k].second);
          if (r == 0) got[t].push_back(v);
          if (v != expect[t][k]) bad[t] = 1;
        }
      }
    });
  }
  for (int w = 0; w < nwriters; ++w) th.emplace_back([&, w] {
    while (go.load(std::memory_order_acquire) == 0) std::this_thread::yield();
    writer_body<C>(rounds * 3, w * 11 + 1);
  });
  go.store(1, std::memory_order_release);
  for (auto &x : th) x.join();
  for (size_t t = 0; t < progs.size(); ++t)
    if (bad[t]) {
      violation(P20, "reader thread %zu observed a result that differs from the single-threaded result", t);
      return true;
    }
  return false;
}

struct RaceInterp {
  const char *cfgname;
  FILE *transcript;
  int portability;
  RaceInterp() : cfgname(VF_RACE_NAME), transcript(0), portability(0) {}
  bool nontrivial() const { return has_feature(RF_TWO_READERS_COMMON_OP); }

  bool run(const Op *ops, size_t n) {
    case_begin();
    crash_area_op(n ? static_cast<uint32_t>(n - 1) : 0);  // the whole tape is one program
    if (n >= 2) {
      const Op &s = ops[0];
      int kind = s.code % kKinds;
      int nreaders = 2 + s.a % 7;
      int nwriters = s.b % 3;
      int size = s.c % 14;
      std::vector<int> vals, ovals;
      for (int i = 0; i < size; ++i) vals.push_back((s.d + i * 7) % 40);
      for (int i = 0; i < (s.d % 9); ++i) ovals.push_back((s.c + i * 5) % 40);
      if (s.a & 64) ovals = vals;
      std::vector<ThreadProg> progs(static_cast<size_t>(nreaders));
      for (size_t t = 0; t < progs.size(); ++t) progs[t].spin = 0;
      std::vector<int> opcount(kRaceOps, 0);
      for (size_t k = 1; k < n && k < 40; ++k) {
        size_t t = ops[k].a % progs.size();
        int ok = ops[k].code % kRaceOps;
        progs[t].ops.push_back(std::make_pair(ok, static_cast<int>(ops[k].b)));
        progs[t].spin += ops[k].c * 4;
      }
      // make sure at least two readers execute a common op
      for (size_t t = 0; t < progs.size(); ++t)
        if (progs[t].ops.empty()) progs[t].ops.push_back(std::make_pair(ops[1].code % kRaceOps, static_cast<int>(ops[1].b)));
      std::vector<std::set<int> > used(progs.size());
      for (size_t t = 0; t < progs.size(); ++t)
        for (size_t k = 0; k < progs[t].ops.size(); ++k) {
          int ok = progs[t].ops[k].first;
          used[t].insert(ok);
          if (ok == 8) feature(RF_COPY);
          if (ok >= 2 && ok <= 5) feature(RF_LOOKUP);
          if (ok == 6 || ok == 7) feature(RF_COMPARE);
        }
      for (size_t a = 0; a < used.size(); ++a)
        for (size_t b = a + 1; b < used.size(); ++b)
          for (int x : used[a])
            if (used[b].count(x)) feature(RF_TWO_READERS_COMMON_OP);
      if (nwriters) feature(RF_WRITERS);
      th_mix(static_cast<uint64_t>(kind) | (static_cast<uint64_t>(nreaders) << 8) | (static_cast<uint64_t>(nwriters) << 12) | (static_cast<uint64_t>(size) << 16) | (static_cast<uint64_t>(s.d) << 24));
      for (size_t t = 0; t < progs.size(); ++t)
        for (size_t k = 0; k < progs[t].ops.size(); ++k) th_mix((t << 16) | (progs[t].ops[k].first << 8) | (progs[t].ops[k].second & 0xff));
      trace("kind=%d size=%d readers=%d writers=%d ops=%zu", kind, size, nreaders, nwriters, n - 1);
      const int rounds = 6;
      typedef std::allocator<int> AI;
      switch (kind) {
        case 0: run_case<amc::vector<int> >(vals, ovals, progs, nwriters, rounds); feature(RF_HEAP); break;
        case 1: run_case<amc::SmallVector<int, 16> >(vals, ovals, progs, nwriters, rounds); break;
        case 2: run_case<amc::SmallVector<FooM, 3> >(vals, ovals, progs, nwriters, rounds); if (size > 3) feature(RF_HEAP); break;
        case 3: run_case<amc::FixedCapacityVector<FooM, 16> >(vals, ovals, progs, nwriters, rounds); break;
        case 4: run_case<amc::FlatSet<int> >(vals, ovals, progs, nwriters, rounds, (s.a & 32) != 0); feature(RF_HEAP); break;
        case 5: run_case<amc::FlatSet<FooM, std::less<FooM>, amc::allocator<FooM>, amc::SmallVector<FooM, 4> > >(vals, ovals, progs, nwriters, rounds, (s.a & 32) != 0); break;
        case 6: run_case<amc::SmallSet<int, 16> >(vals, ovals, progs, nwriters, rounds); break;
        case 7: run_case<amc::SmallSet<FooM, 3> >(vals, ovals, progs, nwriters, rounds); if (size > 3) { feature(RF_LARGE_SET); feature(RF_HEAP); } break;
        default: run_case<amc::SmallSet<int, 4, std::less<int>, amc::allocator<int>, amc::FlatSet<int> > >(vals, ovals, progs, nwriters, rounds); if (size > 4) { feature(RF_LARGE_SET); feature(RF_HEAP); } break;
      }
      (void)sizeof(AI);
      ctx().ops += n;
    }
    bool f = ctx().failed;
    case_end(nontrivial());
    return f;
  }
};

int main(int argc, char **argv) {
  static RaceInterp I;
  uint32_t w[16];
  for (int i = 0; i < 16; ++i) w[i] = 2;
  w[8] = 4;  // copy construction
  return interp_main(argc, argv, I, w, 16, &race_feat_name);
}
