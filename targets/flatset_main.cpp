// flatset_main.cpp - one FlatSet configuration per binary: -DVF_S=<set type> -DVF_S2=<sibling type> -DVF_NAME -DVF_LIMIT -DVF_IS_STD -DVF_IS_FCV
#include "flatset_interp.hpp"
#include "interp_main.hpp"

using namespace vf;
typedef VF_S TheS;
typedef VF_S2 TheS2;

static void fs_weights(int prop, uint32_t *w) {
  static const uint32_t base[kFlatSetNumOps] = {4, 4, 3, 3, 5, 2, 3, 3, 3, 2, 4, 3, 4, 3, 3, 1, 9, 4, 3, 2, 3, 4, 3, 2, 2, 2, 1, 1, 1, 0, 3, 0};
  for (int i = 0; i < kFlatSetNumOps; ++i) w[i] = base[i];
  if (prop == 14) w[29] = 6;
  if (prop == 9) w[31] = 14;
  if (prop == 6) { w[22] = 6; w[24] = 6; w[21] = 6; w[20] = 5; w[19] = 4; w[25] = 4; }
  if (prop == 12) { w[2] = 10; w[3] = 10; w[7] = 10; w[11] = 6; }
}

int main(int argc, char **argv) {
  MainArgs a = parse_args(argc, argv);
  int prop = parse_prop(a.prop);
  static FlatSetInterp<TheS, TheS2> I(VF_NAME, VF_LIMIT, VF_IS_STD, VF_IS_FCV);
  I.relocate_enabled = (prop == 14);
  for (int q = 1; q + 1 < argc; ++q)
    if (!strcmp(argv[q], "--portability")) I.portability = atoi(argv[q + 1]);
  uint32_t w[kFlatSetNumOps];
  fs_weights(prop, w);
  return interp_main(argc, argv, I, w, kFlatSetNumOps, &set_feat_name);
}
