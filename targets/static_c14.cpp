// static_c14.cpp - C14 (converse part): no container claims trivially_relocatable when one of its parts is not relocatable, and
// every container whose parts all are claims it. Expected values are written down per part (not computed by the library's trait).
#include <functional>
#include <set>
#include <string>
#include <utility>

#include <amc/fixedcapacityvector.hpp>
#include <amc/flatset.hpp>
#include <amc/smallset.hpp>
#include <amc/smallvector.hpp>
#include <amc/vector.hpp>

#include "elem.hpp"
#include "enum_main.hpp"

using namespace vf;

static const char *feat(int i) {
  static const char *n[] = {"non_relocatable_part", "pair_element", "stateful_comparator", "all_parts_relocatable"};
  return i < 4 ? n[i] : 0;
}

struct OptedOut {
  typedef std::false_type trivially_relocatable;
  int v;
  bool operator<(const OptedOut &o) const { return v < o.v; }
};
struct Small2NTR {  // several of them fit in the bytes of a pointer
  unsigned char a, b;
  Small2NTR() : a(0), b(0) {}
  Small2NTR(const Small2NTR &o) : a(o.a), b(o.b) {}
  Small2NTR &operator=(const Small2NTR &o) { a = o.a; b = o.b; return *this; }
  bool operator<(const Small2NTR &o) const { return a < o.a; }
};
template <class T>
struct CmpState {  // trivially copyable comparator with state: relocatable
  int dir;
  bool operator()(const T &a, const T &b) const { return dir ? b < a : a < b; }
};
template <class T>
struct CmpNonTR {  // user-provided copy operations and no declaration: not relocatable
  int dir;
  const CmpNonTR *self;
  CmpNonTR() : dir(0), self(this) {}
  CmpNonTR(const CmpNonTR &o) : dir(o.dir), self(this) {}
  CmpNonTR &operator=(const CmpNonTR &o) { dir = o.dir; return *this; }
  bool operator()(const T &a, const T &b) const { return self->dir ? b < a : a < b; }
};
template <class T>
struct CmpDeclared {  // non trivial but declares itself relocatable
  typedef std::true_type trivially_relocatable;
  int dir;
  CmpDeclared() : dir(0) {}
  CmpDeclared(const CmpDeclared &o) : dir(o.dir) {}
  bool operator()(const T &a, const T &b) const { return dir ? b < a : a < b; }
};

template <class T>
struct CmpEmptyNonTR {  // no state at all, but user-provided copy operations and no declaration: not relocatable
  CmpEmptyNonTR() {}
  CmpEmptyNonTR(const CmpEmptyNonTR &) {}
  CmpEmptyNonTR &operator=(const CmpEmptyNonTR &) { return *this; }
  bool operator()(const T &a, const T &b) const { return a < b; }
};
template <class T>
struct CmpEmptyOptedOut {  // empty and trivially copyable, but declares false
  typedef std::false_type trivially_relocatable;
  bool operator()(const T &a, const T &b) const { return a < b; }
};

static void expect(const char *what, bool got, bool want) {
  if (got != want) violation(P14 | P17, "%s: trivially_relocatable is %d, its parts imply %d", what, int(got), int(want));
}

template <class T, class C>
static void row(const char *tn, bool trT, const char *cn, bool trC) {
  typedef amc::allocator<T> A;
  typedef amc::vector<T> V;
  typedef amc::SmallVector<T, 3> SV;
  typedef amc::FixedCapacityVector<T, 3> F;
  typedef amc::SmallVector<T, 1> SV1;  // shares its bytes with the heap pointer whatever T is
  typedef amc::FixedCapacityVector<T, 1> F1;
  typedef amc::FlatSet<T, C, A, SV1> FS3;
  typedef amc::SmallSet<T, 1, C, A, FS3> SSF1;
  typedef amc::FlatSet<T, C, A, V> FS;
  typedef amc::FlatSet<T, C, A, SV> FS2;
  typedef amc::SmallSet<T, 3, C, A, FS> SSF;
  typedef amc::SmallSet<T, 3, C, A> SSS;
  std::string key = std::string("traits T=") + tn + " Compare=" + cn;
  if (!enum_begin(key)) return;
  if (!trT || !trC) feature(0);
  if (std::string(tn).find("pair") != std::string::npos) feature(1);
  if (std::string(cn).find("less") == std::string::npos) feature(2);
  if (trT && trC) feature(3);
  expect("is_trivially_relocatable<T>", amc::is_trivially_relocatable<T>::value, trT);
  expect("is_trivially_relocatable<Compare>", amc::is_trivially_relocatable<C>::value, trC);
  expect("amc::vector<T>", amc::is_trivially_relocatable<V>::value, true);
  expect("SmallVector<T,3>", amc::is_trivially_relocatable<SV>::value, trT);
  expect("FixedCapacityVector<T,3>", amc::is_trivially_relocatable<F>::value, trT);
  expect("SmallVector<T,4>", amc::is_trivially_relocatable<amc::SmallVector<T, 4> >::value, trT);
  expect("SmallVector<T,1>", amc::is_trivially_relocatable<SV1>::value, trT);
  expect("FixedCapacityVector<T,1>", amc::is_trivially_relocatable<F1>::value, trT);
  expect("FlatSet<T,Compare,SmallVector<T,1>>", amc::is_trivially_relocatable<FS3>::value, trC && trT);
  expect("SmallSet<T,1,Compare,FlatSet<SmallVector<T,1>>>", amc::is_trivially_relocatable<SSF1>::value, trC && trT);
  expect("FlatSet<T,Compare,amc::vector>", amc::is_trivially_relocatable<FS>::value, trC);
  expect("FlatSet<T,Compare,SmallVector>", amc::is_trivially_relocatable<FS2>::value, trC && trT);
  expect("SmallSet<T,3,Compare,FlatSet>", amc::is_trivially_relocatable<SSF>::value, trC && trT);
  expect("SmallSet<T,3,Compare,std::set>", amc::is_trivially_relocatable<SSS>::value, false);
  enum_end(true);
}

template <class T>
static void rows_for(const char *tn, bool trT) {
  row<T, std::less<T> >(tn, trT, "std::less", true);
  row<T, CmpState<T> >(tn, trT, "CmpState(trivially copyable)", true);
  row<T, CmpDeclared<T> >(tn, trT, "CmpDeclared(declares true)", true);
  row<T, CmpNonTR<T> >(tn, trT, "CmpNonTR(self pointer)", false);
  row<T, std::function<bool(const T &, const T &)> >(tn, trT, "std::function", false);
  row<T, CmpEmptyNonTR<T> >(tn, trT, "CmpEmptyNonTR(empty, user copy)", false);
  row<T, CmpEmptyOptedOut<T> >(tn, trT, "CmpEmptyOptedOut(empty, declares false)", false);
}

int main(int argc, char **argv) {
  enum_init(argc, argv, "static_c14");
  rows_for<int>("int", true);
  rows_for<TC<7, 1> >("TC7", true);
  rows_for<char>("char", true);
  rows_for<Small2NTR>("Small2NTR(2 bytes, user copy)", false);
  rows_for<TR>("TR(declares true)", true);
  rows_for<NTR>("NTR", false);
  rows_for<std::string>("std::string", false);
  rows_for<OptedOut>("OptedOut(trivially copyable, declares false)", false);
  rows_for<std::pair<int, TR> >("pair<int,TR>", true);
  rows_for<std::pair<TR, int> >("pair<TR,int>", true);
  rows_for<std::pair<int, NTR> >("pair<int,NTR>", false);
  rows_for<std::pair<NTR, int> >("pair<NTR,int>", false);
  rows_for<std::pair<int, std::string> >("pair<int,std::string>", false);
  rows_for<std::pair<std::pair<int, TR>, TR> >("pair<pair<int,TR>,TR>", true);
  rows_for<std::pair<std::pair<int, NTR>, TR> >("pair<pair<int,NTR>,TR>", false);
  return enum_finish(&feat, "");
}
