// fuzz_main.hpp - libFuzzer entry shared by the tape interpreters (thorough tier). The input bytes ARE the tape (5 bytes per op).
// env: VF_PROP=Cxx (which violations are fatal + op discipline), VF_STATS=<file> (stats written at exit)
#pragma once
#include <cstdio>
#include <cstdlib>

#include "alloc.hpp"
#include "tape.hpp"
#include "vf_core.hpp"

namespace vf {
typedef const char *(*feat_fn)(int);
static feat_fn g_feat = 0;
static const char *g_cfg = "";

inline void fuzz_write_stats() {
  const char *p = getenv("VF_STATS");
  if (!p) return;
  FILE *f = fopen(p, "w");
  if (!f) return;
  Ctx &c = ctx();
  fprintf(f, "{\"cfg\":\"%s\",\"prop\":\"C%02d\",\"seed\":0,\"cases\":%llu,\"ops\":%llu,\"skipped\":%llu,\"nontrivial\":%llu,\"distinct_nontrivial\":%zu,\"result\":%d,\"fail_msg\":\"%s\",\"malloc_hook\":%s,\"features\":{",
          g_cfg, c.prop, (unsigned long long)c.cases, (unsigned long long)c.ops, (unsigned long long)c.skipped_cases, (unsigned long long)c.nontrivial_cases,
          c.distinct ? c.distinct->size() : (size_t)0, c.failed ? 1 : 0, json_escape(c.msg).c_str(), mstats().installed ? "true" : "false");
  bool first = true;
  for (int i = 0; i < 64; ++i) {
    const char *n = g_feat ? g_feat(i) : 0;
    if (!n) continue;
    fprintf(f, "%s\"%s\":%llu", first ? "" : ",", n, (unsigned long long)c.feat_total[i]);
    first = false;
  }
  fprintf(f, "},\"samples\":[");
  if (c.samples)
    for (size_t i = 0; i < c.samples->size(); ++i) fprintf(f, "%s\"%s\"", i ? "," : "", json_escape((*c.samples)[i]).c_str());
  fprintf(f, "]}\n");
  fclose(f);
}

template <class Interp>
int fuzz_one(Interp &I, const uint8_t *data, size_t size, feat_fn fn) {
  static bool init = false;
  if (!init) {
    init = true;
    Ctx &c = ctx();
    c.prop = parse_prop(getenv("VF_PROP") ? getenv("VF_PROP") : "C01");
    c.fatal_mask = 1u << c.prop;
    c.cfg_name = I.cfgname;
    g_feat = fn;
    g_cfg = I.cfgname;
    install_malloc_hook();
    atexit(fuzz_write_stats);
  }
  if (size > 5 * 200) size = 5 * 200;
  std::vector<Op> ops = tape_from_bytes(data, size);
  bool failed = I.run(ops.empty() ? 0 : &ops[0], ops.size());
  if (failed) {
    fprintf(stderr, "VF-FAIL prop=C%02d cfg=%s msg=%s\n", ctx().prop, I.cfgname, ctx().msg);
    fuzz_write_stats();
    abort();  // libFuzzer saves the input as crash-<hash>
  }
  return 0;
}
}  // namespace vf
