// lookup_c19.cpp - C19: comparator-call counts of FlatSet lookups / position search / hinted insertion, SmallSet inline lookups.
#include <set>

#include <amc/flatset.hpp>
#include <amc/smallset.hpp>
#include <amc/smallvector.hpp>

#include "cmp.hpp"
#include "elem.hpp"
#include "enum_main.hpp"

using namespace vf;

#ifndef VF_TNAME
#define VF_TNAME "lookup_c19"
#endif

static const char *feat(int i) {
  static const char *n[] = {"n_ge_64", "present_key", "absent_key", "correct_hint_lower_bound", "correct_hint_upper_bound", "smallset_inline", "n_ge_512", "smallset_large_over_flatset", "smallset_beyond_N"};
  return i < 9 ? n[i] : 0;
}
static int ceil_log2(unsigned long n) {
  int k = 0;
  while ((1ul << k) < n) ++k;
  return k;
}
static unsigned long long &calls() { return CmpCounter::calls(); }
static unsigned long long g_probes = 0;

template <class S>
static void flat_case(const char *name, long n) {
  typedef typename S::value_type E;
  typedef typename S::key_compare Cmp;
  char key[128];
  snprintf(key, sizeof key, "flatset %s n=%ld", name, n);
  if (!enum_begin(key)) return;
  ledgers_reset();
  ModelCmp mc = CmpTraits<Cmp>::model(Cmp());
  const int step = 2 * mc.div;  // distinct equivalence classes: values step*i + step/2 ... keep gaps for absent keys
  const unsigned long long B = 2ull * ceil_log2(static_cast<unsigned long>(n + 1)) + 4;
  if (n >= 64) feature(0);
  if (n >= 512) feature(6);
  {
    S s;
    // build through range insertion of already distinct classes
    std::vector<E> src;
    for (long i = 0; i < n; ++i) src.push_back(ET<E>::make(static_cast<int>(step * i + mc.div)));
    s.insert(src.begin(), src.end());
    if (static_cast<long>(s.size()) != n) violation(P19, "setup: size %ld != %ld", static_cast<long>(s.size()), n);
    // every key rank: present keys (the elements) and absent keys (between, below, above)
    long ranks = 2 * n + 1;
    long stride = n > 600 ? 1 : 1;
    for (long r = 0; r < ranks && !failed(); r += stride) {
      bool present = (r % 2) == 1;
      int v = present ? static_cast<int>(step * (r / 2) + mc.div) : static_cast<int>(step * (r / 2));
      // absent keys: step*(r/2) lies in the class just below element r/2's class when div>1; with div==1 step=2 so even values are absent
      feature(present ? 1 : 2);
      ++g_probes;
      E k(ET<E>::make(v));
      const S &cs = s;
      unsigned long long c0;
#define COUNTED(expr, what)                                                                                                      \
  c0 = calls();                                                                                                                  \
  (void)(expr);                                                                                                                  \
  if (calls() - c0 > B) violation(P19, "%s on n=%ld (key rank %ld): %llu comparator calls, bound %llu", what, n, r, calls() - c0, B);
      COUNTED(cs.find(k), "find");
      COUNTED(cs.contains(k), "contains");
      COUNTED(cs.count(k), "count");
      COUNTED(cs.lower_bound(k), "lower_bound");
      COUNTED(cs.upper_bound(k), "upper_bound");
      COUNTED(cs.equal_range(k), "equal_range");
      bool is_there = cs.contains(k);
      if (is_there != present && mc.div == 1) violation(P19, "setup: membership of %d unexpected", v);
      // hinted insertion with a correct hint: constant number of calls, whatever n
      long lb = static_cast<long>(cs.lower_bound(k) - cs.begin());
      long ub = static_cast<long>(cs.upper_bound(k) - cs.begin());
      for (int which = 0; which < 2 && !failed(); ++which) {
        if (which == 1 && (!is_there || ub == lb)) break;
        long h = which == 0 ? lb : ub;
        feature(which == 0 ? 3 : 4);
        size_t before = s.size();
        c0 = calls();
        typename S::const_iterator it = s.insert(s.begin() + h, ET<E>::make(v));
        unsigned long long used = calls() - c0;
        if (used > 8) violation(P19, "insert with the correct hint (%s) on n=%ld: %llu comparator calls (must not depend on n; bound 8)", which == 0 ? "lower bound" : "upper bound", n, used);
        if (s.size() != before) {
          // it was absent: measure the position search of erase(key) and remove it again; then of plain insert
          c0 = calls();
          s.erase(*it);
          if (calls() - c0 > B) violation(P19, "erase(key) on n=%ld: %llu comparator calls, bound %llu", n + 1, calls() - c0, B);
          c0 = calls();
          std::pair<typename S::iterator, bool> pr = s.insert(ET<E>::make(v));
          if (calls() - c0 > B) violation(P19, "insert(value) position search on n=%ld: %llu comparator calls, bound %llu", n, calls() - c0, B);
          c0 = calls();
          s.erase(*pr.first);
          (void)c0;
          c0 = calls();
          pr = s.emplace(v);
          if (calls() - c0 > B) violation(P19, "emplace position search on n=%ld: %llu comparator calls, bound %llu", n, calls() - c0, B);
          s.erase(pr.first);
        }
      }
    }
  }
  enum_end(n >= 64);
}

// heterogeneous lookups whose key is equivalent to a whole run of elements (transparent comparator)
template <class S>
static void wide_case(const char *name, long n, int width) {
  typedef typename S::value_type E;
  typedef typename S::key_compare Cmp;
  char key[128];
  snprintf(key, sizeof key, "flatset %s n=%ld wide-key width=%d", name, n, width);
  if (!enum_begin(key)) return;
  ledgers_reset();
  const unsigned long long B = 2ull * ceil_log2(static_cast<unsigned long>(n + 1)) + 4;
  if (n >= 64) feature(0);
  {
    S s;
    std::vector<E> src;
    for (long i = 0; i < n; ++i) src.push_back(ET<E>::make(static_cast<int>(i)));
    s.insert(src.begin(), src.end());
    const S &cs = s;
    for (int b = 0; b <= static_cast<int>(n / width) + 1 && !failed(); ++b) {
      typename Cmp::Wide k = {b, width};
      const long r = b;
      unsigned long long c0;
      ++g_probes;
      COUNTED(cs.find(k), "find(wide key)");
      COUNTED(cs.contains(k), "contains(wide key)");
      COUNTED(cs.count(k), "count(wide key)");
      COUNTED(cs.lower_bound(k), "lower_bound(wide key)");
      COUNTED(cs.upper_bound(k), "upper_bound(wide key)");
      long expect = std::max<long>(0, std::min<long>(n, static_cast<long>(b + 1) * width) - static_cast<long>(b) * width);
      if (!failed() && static_cast<long>(cs.count(k)) != expect) violation(P19 | P03, "count(wide key %d/%d) is %ld, %ld elements are equivalent", b, width, static_cast<long>(cs.count(k)), expect);
    }
  }
  enum_end(n >= 64);
}

template <class S, long N>
static void small_case(const char *name, long fill) {
  typedef typename S::value_type E;
  char key[128];
  snprintf(key, sizeof key, "smallset %s N=%ld fill=%ld", name, N, fill);
  if (!enum_begin(key)) return;
  ledgers_reset();
  feature(5);
  {
    S s;
    for (long i = 0; i < fill; ++i) s.emplace(static_cast<int>(2 * ((i * 7) % N) + 1));  // insertion order is a permutation
    const S &cs = s;
    const unsigned long long B = 2ull * N + 2;
    const long n = fill;
    // ascending then descending key order: erased keys are re-inserted at the end, so the two passes put smaller respectively
    // larger elements in front of the key being looked up (two comparator calls for a smaller element, one for a larger)
    for (int step = 0; step <= 2 * (2 * N + 2) - 1 && !failed(); ++step) {
      const int v = step <= 2 * N + 1 ? step : 2 * (2 * N + 2) - 1 - step;
      const long r = v;
      E k(ET<E>::make(v));
      unsigned long long c0;
      ++g_probes;
      COUNTED(cs.find(k), "SmallSet::find (inline)");
      COUNTED(cs.contains(k), "SmallSet::contains (inline)");
      COUNTED(cs.count(k), "SmallSet::count (inline)");
      // the position searches of erase-by-key, insert and emplace while the set stays inline are lookups too
      bool present = cs.contains(k);
      if (present) {
        COUNTED(s.erase(k), "SmallSet::erase(key) (inline)");
        COUNTED(s.insert(ET<E>::make(v)), "SmallSet::insert of an absent key (inline, not full)");
        COUNTED(s.insert(ET<E>::make(v)), "SmallSet::insert of a present key (inline)");
        COUNTED(s.emplace(v), "SmallSet::emplace of a present key (inline)");
      } else if (fill < N) {
        COUNTED(s.erase(k), "SmallSet::erase of an absent key (inline)");
        COUNTED(s.emplace(v), "SmallSet::emplace of an absent key (inline, not full)");
        c0 = calls();
        s.erase(k);
      }
    }
  }
  enum_end(fill >= 2);
}

// SmallSet over a FlatSet in its large state: lookups go to the FlatSet and keep its logarithmic bound
template <class S>
static void large_small_case(const char *name, long n) {
  typedef typename S::value_type E;
  char key[128];
  snprintf(key, sizeof key, "smallset(large) %s n=%ld", name, n);
  if (!enum_begin(key)) return;
  ledgers_reset();
  const unsigned long long B = 2ull * ceil_log2(static_cast<unsigned long>(n + 1)) + 4;
  if (n >= 64) feature(0);
  feature(7);
  {
    S s;
    for (long i = 0; i < n; ++i) s.emplace(static_cast<int>(2 * ((i * 7919) % n) + 1));
    if (static_cast<long>(s.size()) != n) violation(P19, "setup: size %ld != %ld", static_cast<long>(s.size()), n);
    const S &cs = s;
    for (long r = 0; r <= 2 * n + 1 && !failed(); ++r) {
      E k(ET<E>::make(static_cast<int>(r)));
      unsigned long long c0;
      ++g_probes;
      feature((r % 2) ? 1 : 2);
      COUNTED(cs.find(k), "SmallSet::find (large, FlatSet)");
      COUNTED(cs.contains(k), "SmallSet::contains (large, FlatSet)");
      COUNTED(cs.count(k), "SmallSet::count (large, FlatSet)");
    }
  }
  enum_end(n >= 64);
}

// whatever the number of elements: as long as the elements live inside the SmallSet object (inline state), a lookup costs <= 2N+2;
// in the large state over a FlatSet the logarithmic bound applies. Small element types leave padding bytes in the object.
template <class S, long N, bool Flat>
static void beyond_case(const char *name, long fill) {
  typedef typename S::value_type E;
  char key[128];
  snprintf(key, sizeof key, "smallset(beyond N) %s N=%ld fill=%ld", name, N, fill);
  if (!enum_begin(key)) return;
  ledgers_reset();
  feature(8);
  {
    S s;
    for (long i = 0; i < fill; ++i) s.insert(ET<E>::make(static_cast<int>(2 * i + 1)));
    if (static_cast<long>(s.size()) != fill) violation(P19, "setup: size %ld != %ld", static_cast<long>(s.size()), fill);
    const S &cs = s;
    const char *b = reinterpret_cast<const char *>(&s), *q = reinterpret_cast<const char *>(&*cs.begin());
    const bool inl = q >= b && q < b + sizeof(S);
    const long n = fill;
    const unsigned long long Blog = 2ull * ceil_log2(static_cast<unsigned long>(n + 1)) + 4;
    const unsigned long long B = inl ? 2ull * N + 2 : Blog;
    if (inl || Flat)
      for (long r = 0; r <= 2 * fill + 1 && !failed(); ++r) {
        E k(ET<E>::make(static_cast<int>(r)));
        unsigned long long c0;
        ++g_probes;
        COUNTED(cs.find(k), inl ? "SmallSet::find with its elements inside the object (inline state)" : "SmallSet::find (large, FlatSet)");
        COUNTED(cs.contains(k), inl ? "SmallSet::contains with its elements inside the object (inline state)" : "SmallSet::contains (large, FlatSet)");
        COUNTED(cs.count(k), inl ? "SmallSet::count with its elements inside the object (inline state)" : "SmallSet::count (large, FlatSet)");
      }
    // insertion with a correct hint in the large state: constant number of calls (the hint is forwarded to the backing set)
    if (!inl) {
      for (int form = 0; form < 3 && !failed(); ++form)
        for (long r = 0; r <= 2 * fill && !failed(); r += 2) {  // absent keys 0, 2, 4, ...: the correct hint is the element 2i+1 (or end())
          const int v = static_cast<int>(r);
          typename S::const_iterator hint = r + 1 <= 2 * fill - 1 ? cs.find(ET<E>::make(v + 1)) : cs.end();
          unsigned long long c0 = calls();
          typename S::iterator it = form == 0 ? s.insert(hint, ET<E>::make(v)) : form == 1 ? s.emplace_hint(hint, v) : s.insert(hint, static_cast<const E &>(E(ET<E>::make(v))));
          unsigned long long used = calls() - c0;
          if (used > 8)
            violation(P19, "SmallSet (large state, n=%ld) %s with the correct hint: %llu comparator calls (must not depend on n; bound 8)", n,
                      form == 0 ? "insert(hint, T&&)" : form == 1 ? "emplace_hint" : "insert(hint, const T&)", used);
          s.erase(it);
        }
    }
  }
  enum_end(fill >= 2);
}
template <class E, long N>
static void run_beyond(const char *name) {
  typedef amc::SmallSet<E, N, CLess<E>, AStd<E> > S1;
  typedef amc::SmallSet<E, N, CLess<E>, AStd<E>, amc::FlatSet<E, CLess<E>, AStd<E>, amc::vector<E, AStd<E> > > > S2;
  static const long more[] = {1, 2, 3, 4, 5, 6, 8, 12, 20, 45};
  for (unsigned a = 0; a < 10; ++a) {
    if (2 * (N + more[a]) + 1 > 120 && sizeof(E) == 1) continue;  // keys must fit the element type
    beyond_case<S1, N, false>((std::string(name) + "/std::set").c_str(), N + more[a]);
    beyond_case<S2, N, true>((std::string(name) + "/flat").c_str(), N + more[a]);
  }
}

// SmallSet inline with a transparent comparator: a heterogeneous key equivalent to several inline elements stays within 2N+2
template <long N>
static void small_wide_case(long fill, int width) {
  typedef int32_t E;
  typedef amc::SmallSet<E, N, TLess<E>, AStd<E> > S;
  char key[128];
  snprintf(key, sizeof key, "smallset transparent N=%ld fill=%ld wide-key width=%d", N, fill, width);
  if (!enum_begin(key)) return;
  ledgers_reset();
  feature(5);
  {
    S s;
    for (long i = 0; i < fill; ++i) s.emplace(static_cast<int>((i * 7) % N));  // values 0..N-1 in a scrambled insertion order
    const S &cs = s;
    const unsigned long long B = 2ull * N + 2;
    const long n = fill;
    for (int b = 0; b <= static_cast<int>(N / width) + 1 && !failed(); ++b) {
      typename TLess<E>::Wide k = {b, width};
      const long r = b;
      unsigned long long c0;
      ++g_probes;
      COUNTED(cs.find(k), "SmallSet::find(heterogeneous key) (inline)");
      COUNTED(cs.contains(k), "SmallSet::contains(heterogeneous key) (inline)");
      COUNTED(cs.count(k), "SmallSet::count(heterogeneous key) (inline)");
    }
  }
  enum_end(fill >= 2);
}
template <long N>
static void run_small_wide() {
  for (long f = 0; f <= N; ++f) {
    small_wide_case<N>(f, 2);
    small_wide_case<N>(f, 4);
    small_wide_case<N>(f, 1000);
  }
}

template <class S>
static void run_flat(const char *name) {
  const bool thorough = est().thorough;
  // tracked element types register every live object: their sizes stay below the registry's capacity
  const long pmax = thorough ? (ET<typename S::value_type>::tracked ? 4096 : 65536) : (ET<typename S::value_type>::tracked ? 1024 : 4096);
  for (long n = 0; n <= (thorough ? 2000 : 400); ++n) flat_case<S>(name, n);
  for (long p = thorough ? 2048 : 512; p <= pmax; p *= 2) {
    flat_case<S>(name, p - 1);
    flat_case<S>(name, p);
    flat_case<S>(name, p + 1);
  }
  // sizes derived from the seed
  unsigned long long x = est().seed * 6364136223846793005ull + 1442695040888963407ull;
  for (int q = 0; q < (thorough ? 16 : 4); ++q) {
    x = x * 6364136223846793005ull + 1442695040888963407ull;
    flat_case<S>(name, (thorough ? 2001 : 401) + static_cast<long>((x >> 33) % (thorough ? (ET<typename S::value_type>::tracked ? 2000ull : 30000ull) : 1600ull)));
  }
}
template <class E, long N>
static void run_small(const char *name) {
  typedef amc::SmallSet<E, N, CLess<E>, AStd<E> > S1;
  typedef amc::SmallSet<E, N, CLess<E>, AStd<E>, amc::FlatSet<E, CLess<E>, AStd<E>, amc::vector<E, AStd<E> > > > S2;
  for (long f = 0; f <= N; ++f) {
    small_case<S1, N>(name, f);
    small_case<S2, N>((std::string(name) + "/flat").c_str(), f);
  }
}

int main(int argc, char **argv) {
  enum_init(argc, argv, VF_TNAME);
  typedef int32_t I;
  run_flat<amc::FlatSet<I, CLess<I>, AStd<I>, amc::vector<I, AStd<I> > > >("less/amc::vector/int");
  run_flat<amc::FlatSet<I, CGreater<I>, AStd<I>, amc::SmallVector<I, 4, AStd<I> > > >("greater/SmallVector4/int");
  run_flat<amc::FlatSet<TR, Coarse<TR>, AStd<TR>, std::vector<TR, AStd<TR> > > >("coarse/std::vector/TR");
  run_flat<amc::FlatSet<NTR, CLess<NTR>, AStd<NTR>, amc::vector<NTR, AStd<NTR> > > >("less/amc::vector/NTR");
  {
    typedef amc::FlatSet<I, TLess<I>, AStd<I>, amc::vector<I, AStd<I> > > TS;
    static const long ns[] = {9, 33, 96, 300, 1000};
    for (unsigned a = 0; a < 5; ++a) {
      wide_case<TS>("transparent/amc::vector/int", ns[a], 4);
      wide_case<TS>("transparent/amc::vector/int", ns[a], 64);
      wide_case<TS>("transparent/amc::vector/int", ns[a], 100000);
    }
  }
  {
    typedef amc::SmallSet<I, 4, CLess<I>, AStd<I>, amc::FlatSet<I, CLess<I>, AStd<I>, amc::vector<I, AStd<I> > > > LS;
    static const long ns[] = {5, 6, 9, 17, 64, 100, 255, 256, 257, 1000};
    for (unsigned a = 0; a < 10; ++a) large_small_case<LS>("int,4/flat", ns[a]);
    if (est().thorough)
      for (long n = 5; n <= 600; ++n) large_small_case<LS>("int,4/flat", n);
  }
  run_beyond<char, 3>("char");
  run_beyond<unsigned char, 10>("uchar");
  run_beyond<uint16_t, 5>("u16");
  run_beyond<I, 2>("int");
  run_beyond<I, 7>("int");
  run_beyond<TR, 4>("TR");
  run_small_wide<4>();
  run_small_wide<8>();
  run_small_wide<16>();
  run_small<I, 1>("int");
  run_small<I, 2>("int");
  run_small<I, 4>("int");
  run_small<TR, 8>("TR");
  run_small<I, 16>("int");
  char extra[96];
  snprintf(extra, sizeof extra, "{\"keys_probed\":%llu}", g_probes);
  return enum_finish(&feat, extra);
}
