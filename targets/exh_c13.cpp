// exh_c13.cpp - C13: swap2 between every ordered pair of 8 vector flavours x operand states x sizes. -DVF_CAT=0 int, 1 TR, 2 NTR
#include <exception>
#include <vector>

#include <amc/fixedcapacityvector.hpp>
#include <amc/smallvector.hpp>
#include <amc/vector.hpp>

#include "alloc.hpp"
#include "elem.hpp"
#include "enum_main.hpp"

using namespace vf;

#ifndef VF_CAT
#define VF_CAT 2
#endif
#if VF_CAT == 0
typedef int32_t E;
static const char *kCat = "int";
#elif VF_CAT == 1
typedef TR E;
static const char *kCat = "TR";
#elif VF_CAT == 2
typedef NTR E;
static const char *kCat = "NTR";
#else
// element whose move operations are not noexcept (they never actually throw): swap2 is then not noexcept either and an
// exception raised half-way propagates to the caller instead of terminating the program
struct TM {
  NTR h;
  TM() : h() {}
  explicit TM(int v) : h(v) {}
  TM(const TM &o) : h(o.h) {}
  TM(TM &&o) noexcept(false) : h(std::move(o.h)) {}
  TM &operator=(const TM &o) { h = o.h; return *this; }
  TM &operator=(TM &&o) noexcept(false) { h = std::move(o.h); return *this; }
  int val() const { return h.val(); }
  bool is_null() const { return h.is_null(); }
  bool magic_ok() const { return h.magic_ok(); }
  uint32_t id() const { return h.id(); }
  friend bool operator==(const TM &a, const TM &b) { return a.val() == b.val(); }
};
typedef TM E;
static const char *kCat = "ThrowingMoveType";
#endif
#ifndef VF_TNAME
#define VF_TNAME "exh_c13"
#endif

static const char *feat(int i) {
  static const char *n[] = {"both_non_empty", "heap_backed_operand", "exactly_full_inline_operand", "different_types", "different_size_types", "must_fail_cleanly",
                            "buffer_exchange_path", "fixed_capacity_operand"};
  return i < 8 ? n[i] : 0;
}

template <class V>
struct Info {
  static const bool is_fcv = std::is_same<typename V::allocator_type, amc::vec::EmptyAlloc>::value;
  static long N() { return static_cast<long>(V::kInlineCapacity); }
  static long maxsize() {
    if (is_fcv) return N();
    unsigned long long m = static_cast<unsigned long long>(std::numeric_limits<typename V::size_type>::max());
    return m > 100000 ? 100000 : static_cast<long>(m);
  }
};

// operand state recipes
enum Variant { V_FILL, V_RESERVE_FILL, V_FILL_POP, V_FILL_CLEAR, V_NVARIANTS };
static const char *vname(int v) {
  static const char *n[] = {"fill", "reserve+fill", "fill+pop", "fill+clear"};
  return n[v];
}

template <class V>
static bool build(V &c, int variant, long size, std::vector<int> &model, int base) {
  typedef typename V::size_type ST;
  const long lim = Info<V>::maxsize();
  if (size > lim) return false;
  switch (variant) {
    case V_FILL: break;
    case V_RESERVE_FILL: {
      long r = std::min<long>(std::max<long>(Info<V>::N(), size) + 2, lim);
      c.reserve(static_cast<ST>(r));
      break;
    }
    case V_FILL_POP: {
      long extra = std::min<long>(5, lim - size);
      for (long i = 0; i < size + extra; ++i) c.emplace_back(1000 + static_cast<int>(i));
      for (long i = 0; i < size + extra; ++i) c.pop_back();
      break;
    }
    default: {
      long n9 = std::min<long>(9, lim);
      for (long i = 0; i < n9; ++i) c.emplace_back(2000 + static_cast<int>(i));
      c.clear();
      if (size != 0) return false;  // only the emptied state
      break;
    }
  }
  for (long i = 0; i < size; ++i) {
    c.emplace_back(base + static_cast<int>(i % 97));
    model.push_back(base + static_cast<int>(i % 97));
  }
  return true;
}
template <class V>
static bool values_equal(const V &c, const std::vector<int> &m) {
  if (static_cast<size_t>(c.size()) != m.size()) return false;
  size_t k = 0;
  for (typename V::const_iterator it = c.begin(); it != c.end(); ++it, ++k)
    if (!ET<E>::readable(*it) || val_of(*it) != m[k]) return false;
  return true;
}
template <class V>
static bool is_inline(const V &c) {
  const char *b = reinterpret_cast<const char *>(&c), *q = reinterpret_cast<const char *>(c.data());
  return q >= b && q < b + sizeof(V);
}
template <class V>
static void follow_up(V &c, std::vector<int> &m, const char *who) {
  typedef typename V::size_type ST;
  const long lim = Info<V>::maxsize();
  try {
    if (static_cast<long>(m.size()) < lim) {
      c.emplace_back(7);
      m.push_back(7);
    }
    if (static_cast<long>(m.size()) < lim) {
      c.insert(c.begin(), ET<E>::make(8));
      m.insert(m.begin(), 8);
    }
    if (!m.empty()) {
      c.erase(c.begin() + static_cast<long>(m.size() / 2));
      m.erase(m.begin() + static_cast<long>(m.size() / 2));
    }
    if (!values_equal(c, m)) violation(P13, "%s: follow-up operations disagree with the model", who);
    c.shrink_to_fit();
    if (!failed() && !values_equal(c, m)) violation(P13, "%s: contents changed by shrink_to_fit after swap2", who);
    c.clear();
    long refill = std::min<long>(3, lim);
    for (long i = 0; i < refill; ++i) c.emplace_back(static_cast<int>(i));
    if (c.size() != static_cast<ST>(refill)) violation(P13, "%s: refill after clear failed", who);
  } catch (const std::exception &e) {
    violation(P13, "%s: follow-up operation threw %s", who, e.what());
  }
}

template <class A, class B>
static void pair_case(const char *na, const char *nb) {
  static const long sizes[] = {0, 1, 2, 3, 4, 5, 6, 7, 9, 10, 11, 12, 200, 255, 256, 300};
  const int nsizes = est().thorough ? 16 : 16;
  for (int va = 0; va < V_NVARIANTS; ++va)
    for (int vb = 0; vb < V_NVARIANTS; ++vb)
      for (int ia = 0; ia < nsizes; ++ia)
        for (int ib = 0; ib < nsizes; ++ib) {
          long sa = sizes[ia], sb = sizes[ib];
          if (sa > 12 && sb > 12 && !(sa == 255 && sb == 256) && !(sa == 300 && sb == 200)) continue;  // keep the big x big corner small
          if ((va == V_FILL_CLEAR && sa != 0) || (vb == V_FILL_CLEAR && sb != 0)) continue;
          if (sa > Info<A>::maxsize() || sb > Info<B>::maxsize()) continue;
          if (!est().thorough && (sa > 12 || sb > 12) && (va == V_FILL_POP || vb == V_FILL_POP)) continue;
          char key[220];
          snprintf(key, sizeof key, "%s: %s[%s %ld] swap2 %s[%s %ld]", kCat, na, vname(va), sa, nb, vname(vb), sb);
          if (!enum_begin(key)) continue;
          ledgers_reset();
          aledger_reset();
          bool nontriv = false;
          {
            A a;
            B b;
            std::vector<int> ma, mb;
            build(a, va, sa, ma, 100);
            build(b, vb, sb, mb, 500);
            const bool a_inl = is_inline(a) || a.capacity() == 0, b_inl = is_inline(b) || b.capacity() == 0;
            const bool can = sb <= Info<A>::maxsize() && sa <= Info<B>::maxsize();
            if (sa > 0 && sb > 0) feature(0);
            if (!a_inl || !b_inl) feature(1);
            if ((a_inl && !Info<A>::is_fcv && Info<A>::N() > 0 && sa == Info<A>::N()) || (b_inl && !Info<B>::is_fcv && Info<B>::N() > 0 && sb == Info<B>::N())) feature(2);
            if (!std::is_same<A, B>::value) feature(3);
            if (sizeof(typename A::size_type) != sizeof(typename B::size_type)) feature(4);
            if (!can) feature(5);
            if (!a_inl && !b_inl && std::is_same<typename A::allocator_type, typename B::allocator_type>::value) feature(6);
            if (Info<A>::is_fcv || Info<B>::is_fcv) feature(7);
            nontriv = sa > 0 && sb > 0 && (!a_inl || !b_inl || has_feature(2));
            bool threw = false;
            try {
              a.swap2(b);
            } catch (const std::exception &) {
              threw = true;
            }
            if (static_cast<long>(a.size()) > static_cast<long>(a.capacity()) || static_cast<long>(b.size()) > static_cast<long>(b.capacity()))
              violation(P13 | P07, "size() > capacity() after swap2 %s (sizes %ld/%ld, capacities %ld/%ld)", threw ? "threw" : "returned", static_cast<long>(a.size()),
                        static_cast<long>(b.size()), static_cast<long>(a.capacity()), static_cast<long>(b.capacity()));
            if (failed()) {
            } else if (threw) {
              if (can)
                violation(P13, "swap2 threw although each operand can hold the other's size (%ld, %ld)", sa, sb);
              else if (!values_equal(a, ma) || !values_equal(b, mb))
                violation(P13, "swap2 failed but an operand does not keep its original contents");
            } else {
              if (!can) violation(P13, "swap2 returned although an operand cannot hold the other's %ld/%ld elements", sa, sb);
              if (!failed() && (!values_equal(a, mb) || !values_equal(b, ma))) violation(P13, "swap2 returned but the element sequences were not exchanged exactly");
              if (!failed()) ma.swap(mb);
            }
            if (!failed() && (static_cast<long>(a.size()) > static_cast<long>(a.capacity()) || static_cast<long>(b.size()) > static_cast<long>(b.capacity())))
              violation(P13 | P07, "size() > capacity() after swap2 (sizes %ld/%ld, capacities %ld/%ld)", static_cast<long>(a.size()), static_cast<long>(b.size()),
                        static_cast<long>(a.capacity()), static_cast<long>(b.capacity()));
            if (!failed() && ET<E>::tracked && cells().live != ma.size() + mb.size())
              violation(P13 | P02, "%u element values alive, %zu visible after swap2: %s", cells().live, ma.size() + mb.size(), cells().live > ma.size() + mb.size() ? "leak" : "double destroy");
            if (!failed()) follow_up(a, ma, "left operand");
            if (!failed()) follow_up(b, mb, "right operand");
            if (failed()) {
              // do not run destructors of possibly corrupt containers
              new (&a) A();
              new (&b) B();
            }
          }
          if (!failed()) {
            if (cells().live != 0 || shells().live != 0) violation(P13 | P02, "%u value(s) / %u object(s) alive after destruction", cells().live, shells().live);
            if (aledger().outstanding != 0) violation(P13 | P06, "%u block(s) never handed back", aledger().outstanding);
          }
          enum_end(nontriv);
        }
}

typedef amc::vector<E, AAmc<E>, uint32_t> T0;
typedef amc::vector<E, AAmc<E>, uint8_t> T1;
typedef amc::vector<E, AStd<E>, uint16_t> T2;
typedef amc::SmallVector<E, 3, AAmc<E>, uint32_t> T3;
typedef amc::SmallVector<E, 6, AAmc<E>, uint16_t> T4;
typedef amc::SmallVector<E, 4, AStd<E>, uint32_t> T5;
typedef amc::FixedCapacityVector<E, 5> T6;
typedef amc::FixedCapacityVector<E, 10> T7;
typedef amc::SmallVector<E, 3, AAmc<E>, uint8_t> T8;

static const char *tn(int i) {
  static const char *n[] = {"vector<amc,u32>", "vector<amc,u8>", "vector<std,u16>", "SmallVector<3,amc,u32>", "SmallVector<6,amc,u16>", "SmallVector<4,std,u32>",
                            "FixedCapacityVector<5>", "FixedCapacityVector<10>", "SmallVector<3,amc,u8>"};
  return n[i];
}

static void terminate_handler() {
  fprintf(stderr, "terminate called inside case: %s\n", est().current.c_str());
  abort();
}

template <class A, int IA>
static void row() {
  pair_case<A, T0>(tn(IA), tn(0));
  pair_case<A, T1>(tn(IA), tn(1));
  pair_case<A, T2>(tn(IA), tn(2));
  pair_case<A, T3>(tn(IA), tn(3));
  pair_case<A, T4>(tn(IA), tn(4));
  pair_case<A, T5>(tn(IA), tn(5));
  pair_case<A, T6>(tn(IA), tn(6));
  pair_case<A, T7>(tn(IA), tn(7));
  pair_case<A, T8>(tn(IA), tn(8));
}

int main(int argc, char **argv) {
  enum_init(argc, argv, VF_TNAME);
  std::set_terminate(terminate_handler);
  row<T0, 0>();
  row<T1, 1>();
  row<T2, 2>();
  row<T3, 3>();
  row<T4, 4>();
  row<T5, 5>();
  row<T6, 6>();
  row<T7, 7>();
  row<T8, 8>();
  return enum_finish(&feat, "");
}
