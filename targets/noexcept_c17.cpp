// noexcept_c17.cpp - C17 (dynamic side of the noexcept clauses): an operation that the container declares noexcept never runs an
// element operation that the element type declares potentially throwing. The static matrix only sees the declaration; this grid runs
// move construction, move assignment, member swap and ADL swap on every size pair and counts the potentially throwing element
// operations executed inside. A container that relocates trivially relocatable elements by bytes executes none and may be noexcept;
// one that calls the element's throwing swap / move inside a function it declared noexcept would terminate the program on a throw.
#include <string>
#include <utility>

#include <amc/fixedcapacityvector.hpp>
#include <amc/smallvector.hpp>
#include <amc/vector.hpp>

#include "enum_main.hpp"

using namespace vf;

#ifndef VF_TNAME
#define VF_TNAME "noexcept_c17"
#endif

static const char *feat(int i) {
  static const char *n[] = {"declared_noexcept", "tr_declared_element", "throwing_element_op_exists", "heap_operand", "element_ops_ran"};
  return i < 5 ? n[i] : 0;
}

static long g_pt;   // potentially throwing element operations executed
static long g_ops;  // element operations executed

template <bool TRD>
struct TrBase {};
template <>
struct TrBase<true> {
  typedef std::true_type trivially_relocatable;
};

// NC / NA / NS: move constructor / move assignment / ADL swap are noexcept
template <bool TRD, bool NC, bool NA, bool NS>
struct El : TrBase<TRD> {
  int v;
  El() : v(0) {}
  explicit El(int x) : v(x) {}
  El(const El &o) : v(o.v) { ++g_ops; }
  El(El &&o) noexcept(NC) : v(o.v) {
    ++g_ops;
    if (!NC) ++g_pt;
  }
  El &operator=(const El &o) {
    v = o.v;
    ++g_ops;
    return *this;
  }
  El &operator=(El &&o) noexcept(NA) {
    v = o.v;
    ++g_ops;
    if (!NA) ++g_pt;
    return *this;
  }
  ~El() {}
  friend void swap(El &a, El &b) noexcept(NS) {
    int t = a.v;
    a.v = b.v;
    b.v = t;
    ++g_ops;
    if (!NS) ++g_pt;
  }
};

template <class V>
static void fill(V &x, int n, int base) {
  for (int i = 0; i < n; ++i) x.emplace_back(base + i);
}

template <class V>
static bool holds(const V &x, int n, int base) {
  if (static_cast<int>(x.size()) != n) return false;
  for (int i = 0; i < n; ++i)
    if (x[static_cast<typename V::size_type>(i)].v != base + i) return false;
  return true;
}

static void judge(bool declared, const char *what) {
  if (declared) feature(0);
  if (g_ops) feature(4);
  if (declared && g_pt > 0)
    violation(P17, "%s is declared noexcept but ran %ld element operation(s) that the element type declares potentially throwing", what, g_pt);
}

template <class V>
static void grid(const std::string &vn, const std::string &en, bool trd, bool anythrow, int maxsize, int inlineN) {
  for (int a = 0; a <= maxsize; ++a)
    for (int b = 0; b <= maxsize; ++b)
      for (int op = 0; op < 4; ++op) {
        static const char *opn[] = {"a.swap(b)", "swap(a, b)", "V c(std::move(a))", "b = std::move(a)"};
        char key[200];
        snprintf(key, sizeof key, "%s|%s|a=%d|b=%d|%s", vn.c_str(), en.c_str(), a, b, opn[op]);
        if (!enum_begin(key)) continue;
        if (trd) feature(1);
        if (anythrow) feature(2);
        if (a > inlineN || b > inlineN) feature(3);
        {
          V x, y;
          fill(x, a, 100);
          fill(y, b, 200);
          g_pt = 0;
          g_ops = 0;
          using std::swap;
          if (op == 0) {
            x.swap(y);
            judge(noexcept(x.swap(y)), "member swap");
            if (!holds(x, b, 200) || !holds(y, a, 100)) violation(P17, "member swap did not exchange the contents");
          } else if (op == 1) {
            swap(x, y);
            judge(noexcept(swap(x, y)), "swap found by ADL");
            if (!holds(x, b, 200) || !holds(y, a, 100)) violation(P17, "ADL swap did not exchange the contents");
          } else if (op == 2) {
            V c(std::move(x));
            judge(std::is_nothrow_move_constructible<V>::value, "move construction");
            if (!holds(c, a, 100)) violation(P17, "move construction lost the contents");
          } else {
            y = std::move(x);
            judge(std::is_nothrow_move_assignable<V>::value, "move assignment");
            if (!holds(y, a, 100)) violation(P17, "move assignment lost the contents");
          }
        }
        enum_end(anythrow || trd);
      }
}

template <bool TRD, bool NC, bool NA, bool NS>
static void for_elem() {
  typedef El<TRD, NC, NA, NS> E;
  char en[80];
  snprintf(en, sizeof en, "El<tr_declared=%d,nothrow_move_ctor=%d,nothrow_move_assign=%d,nothrow_adl_swap=%d>", int(TRD), int(NC), int(NA), int(NS));
  bool anythrow = !(NC && NA && NS);
  grid<amc::FixedCapacityVector<E, 4> >("FixedCapacityVector<E,4>", en, TRD, anythrow, 4, 4);
  grid<amc::FixedCapacityVector<E, 1> >("FixedCapacityVector<E,1>", en, TRD, anythrow, 1, 1);
  grid<amc::SmallVector<E, 3> >("SmallVector<E,3>", en, TRD, anythrow, 5, 3);
  grid<amc::SmallVector<E, 1> >("SmallVector<E,1>", en, TRD, anythrow, 2, 1);
  grid<amc::vector<E> >("vector<E>", en, TRD, anythrow, 2, 0);
}

template <bool TRD>
static void for_tr() {
  for_elem<TRD, true, true, true>();
  for_elem<TRD, false, true, true>();
  for_elem<TRD, true, false, true>();
  for_elem<TRD, true, true, false>();
  for_elem<TRD, false, false, true>();
  for_elem<TRD, false, true, false>();
  for_elem<TRD, true, false, false>();
  for_elem<TRD, false, false, false>();
}

int main(int argc, char **argv) {
  enum_init(argc, argv, VF_TNAME);
  for_tr<false>();
  for_tr<true>();
  return enum_finish(&feat, "");
}
