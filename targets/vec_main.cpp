// vec_main.cpp - one vector configuration per binary: -DVF_V='<container type>' -DVF_NAME='"name"'
#include "vec_interp.hpp"
#include "interp_main.hpp"

using namespace vf;
typedef VF_V TheV;

static void vec_weights(int prop, uint32_t *w) {
  static const uint32_t base[kVecNumOps] = {4, 4, 4, 3, 2, 4, 3, 4, 5, 2, 3, 4, 4, 1, 2, 2, 3, 3, 2, 3, 1, 1, 3, 4, 2,
                                            2, 2, 2, 1, 2, 1, 1, 1, 1, 4, 3, 1, 1, 1, 1, 1, 1, 1, 1, 1, 1, 1, 0, 1, 1};
  for (int i = 0; i < kVecNumOps; ++i) w[i] = base[i];
  if (prop == 1 || prop == 2) w[49] = 3;
  switch (prop) {
    case 5: w[22] = 8; w[23] = 10; w[24] = 6; w[25] = 4; w[26] = 6; w[34] = 8; w[17] = 5; w[44] = 0; w[48] = 0; break;
    case 9: w[49] = 12; break;
    case 6: w[49] = 5;  // fallthrough
    case 7: w[23] = 8; w[24] = 5; w[25] = 4; w[26] = 5; w[34] = 8; w[35] = 5; w[17] = 6; w[16] = 5; w[48] = 2; break;
    case 8: w[44] = 14; w[32] = 5; w[48] = 3; break;
    case 10: for (int i = 36; i <= 43; ++i) w[i] = 6; w[16] = 5; break;
    case 13: w[26] = 14; w[48] = 2; break;
    case 14: w[47] = 7; break;
    default: break;
  }
}

int main(int argc, char **argv) {
  MainArgs a = parse_args(argc, argv);
  int prop = parse_prop(a.prop);
  static VecInterp<TheV> I(VF_NAME);
  I.relocate_enabled = (prop == 14);
  I.within_n = (prop == 5);
  for (int q = 1; q + 1 < argc; ++q)
    if (!strcmp(argv[q], "--portability")) I.portability = atoi(argv[q + 1]);
  uint32_t w[kVecNumOps];
  vec_weights(prop, w);
  return interp_main(argc, argv, I, w, kVecNumOps, &vec_feat_name);
}
