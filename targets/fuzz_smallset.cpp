// fuzz_smallset.cpp - libFuzzer target for one SmallSet configuration
#include "smallset_interp.hpp"
#include "fuzz_main.hpp"
using namespace vf;
extern "C" int LLVMFuzzerTestOneInput(const uint8_t *data, size_t size) {
  static SmallSetInterp<VF_S, VF_SB> I(VF_NAME);
  static bool once = false;
  if (!once) {
    once = true;
    I.relocate_enabled = parse_prop(getenv("VF_PROP") ? getenv("VF_PROP") : "C04") == 14;
  }
  return fuzz_one(I, data, size, &set_feat_name);
}
