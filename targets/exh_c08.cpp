// exh_c08.cpp - C08: exhaustive grid at the capacity limit. Every growing operation x position x count in the neighbourhood of
// N (FixedCapacityVector) / the size_type maximum (8-bit dynamic vectors; 16-bit sampled); at(i) around size().
#include <deque>
#include <forward_list>
#include <list>
#include <vector>

#include <amc/fixedcapacityvector.hpp>
#include <amc/smallvector.hpp>
#include <amc/vector.hpp>

#include "alloc.hpp"
#include "elem.hpp"
#include "enum_main.hpp"

using namespace vf;

#ifndef VF_TNAME
#define VF_TNAME "exh_c08"
#endif

static const char *feat(int i) {
  static const char *n[] = {"must_throw", "must_succeed_at_limit", "interior_position", "count_overflows_size_type_arithmetic", "non_trivial_element", "heap_backed", "at_out_of_range", "swap2_across_size_types"};
  return i < 8 ? n[i] : 0;
}

enum GOp { G_PUSH_C, G_PUSH_M, G_EMPLACE_BACK, G_EMPLACE, G_INSERT_C, G_INSERT_M, G_INSERT_N, G_INSERT_RANGE_PTR, G_INSERT_RANGE_LIST, G_INSERT_RANGE_FWD, G_INSERT_ILIST,
           G_RESIZE, G_RESIZE_V, G_ASSIGN_N, G_ASSIGN_RANGE, G_ASSIGN_ILIST, G_APPEND_N, G_APPEND_NV, G_APPEND_RANGE, G_APPEND_ILIST, G_RESERVE, G_CTOR_N, G_CTOR_NV, G_CTOR_RANGE,
           G_NOPS };
static const char *gname(int o) {
  static const char *n[] = {"push_back(const&)", "push_back(&&)", "emplace_back", "emplace", "insert(pos,const&)", "insert(pos,&&)", "insert(pos,n,v)", "insert(pos,T*,T*)",
                            "insert(pos,list)", "insert(pos,forward_list)", "insert(pos,ilist3)", "resize(n)", "resize(n,v)", "assign(n,v)", "assign(list)", "assign(ilist3)",
                            "append(n)", "append(n,v)", "append(deque)", "append(ilist3)", "reserve(n)", "Vector(n)", "Vector(n,v)", "Vector(list)"};
  return n[o];
}

template <class V>
static void run_vec(const char *name, long limit, bool is_fcv, const std::vector<long> &sizes, bool heap, unsigned long opmask = ~0ul) {
  typedef typename V::value_type E;
  typedef typename V::size_type ST;
  const unsigned long long stmax = static_cast<unsigned long long>(std::numeric_limits<ST>::max());
  static const long counts_all[] = {0, 1, 2, 3, 4, 5, 6, 127, 128, 255, 256, 65535};
  static const long counts_quick[] = {0, 1, 2, 3, 6, 6, 6, 128, 128, 255, 256, 65535};
  const long *counts = (est().thorough || limit <= 15) ? counts_all : counts_quick;
  for (size_t si = 0; si < sizes.size(); ++si) {
    const long size = sizes[si];
    if (size < 0 || size > limit) continue;
    std::vector<long> positions;
    positions.push_back(0);
    if (size > 1) positions.push_back(size / 2);
    if (size > 0) positions.push_back(size);
    if (limit <= 8)
      for (long p = 1; p < size; ++p)
        if (p != size / 2) positions.push_back(p);
    for (int op = 0; op < G_NOPS; ++op)
      if ((opmask >> op) & 1)
      for (size_t pi = 0; pi < positions.size(); ++pi)
        for (size_t ci = 0; ci < 12; ++ci) {
          if (ci > 0 && counts[ci] == counts[ci - 1]) continue;
          const long pos = positions[pi];
          long cnt = counts[ci];
          const bool positional = (op >= G_EMPLACE && op <= G_INSERT_ILIST);
          const bool single = (op <= G_INSERT_M);
          const bool il = (op == G_INSERT_ILIST || op == G_ASSIGN_ILIST || op == G_APPEND_ILIST);
          const bool absolute = (op == G_RESIZE || op == G_RESIZE_V || op == G_ASSIGN_N || op == G_ASSIGN_RANGE || op == G_ASSIGN_ILIST || op == G_RESERVE || op >= G_CTOR_N);
          if (!positional && pi > 0) continue;
          if ((single || il) && ci > 0) continue;
          if (single) cnt = 1;
          if (il) cnt = 3;
          if (static_cast<unsigned long long>(cnt) > stmax && op != G_INSERT_RANGE_PTR && op != G_INSERT_RANGE_LIST && op != G_INSERT_RANGE_FWD && op != G_ASSIGN_RANGE &&
              op != G_APPEND_RANGE && op != G_CTOR_RANGE)
            continue;  // the count parameter is a size_type
          if (cnt > 300 && limit < 1000) {
            if (op == G_INSERT_RANGE_LIST || op == G_INSERT_RANGE_FWD || op == G_ASSIGN_RANGE || op == G_APPEND_RANGE || op == G_CTOR_RANGE || op == G_INSERT_RANGE_PTR) continue;
          }
          // absolute-size ops: total = size + cnt capped so that both sides of the limit are visited
          long total = (il && absolute) ? 3 : size + cnt;
          if (absolute && static_cast<unsigned long long>(total) > stmax) {
            if (op != G_ASSIGN_RANGE && op != G_CTOR_RANGE && op != G_ASSIGN_ILIST) continue;
          }
          if (op >= G_CTOR_N && pi == 0 && si > 0) continue;  // constructors do not depend on the existing vector
          const bool must_throw = (op >= G_CTOR_N ? total : (absolute ? total : size + cnt)) > limit;
          if (!must_throw && !is_fcv && total > 400) continue;
          if (op == G_RESERVE && !is_fcv) continue;  // a dynamic reserve within size_type cannot exceed the limit
          char key[220];
          snprintf(key, sizeof key, "%s%s %s size=%ld pos=%ld count=%ld", name, heap ? "(heap)" : "", gname(op), size, pos, absolute ? total : cnt);
          if (!enum_begin(key)) continue;
          ledgers_reset();
          aledger_reset();
          bool nontriv = false;
          {
            V c;
            std::vector<int> m;
            if (heap && !is_fcv) c.reserve(static_cast<ST>(std::min<unsigned long long>(static_cast<unsigned long long>(V::kInlineCapacity) + 1, stmax)));
            for (long k = 0; k < size; ++k) {
              c.emplace_back(static_cast<int>(k % 50));
              m.push_back(static_cast<int>(k % 50));
            }
            const long cap0 = static_cast<long>(c.capacity());
            const E *data0 = c.data();
            const char *b = reinterpret_cast<const char *>(&c), *q = reinterpret_cast<const char *>(c.data());
            if (!(q >= b && q < b + sizeof(V)) && cap0 > 0) feature(5);
            if (positional && pos > 0 && pos < size) feature(2);
            if (static_cast<unsigned long long>(size) + static_cast<unsigned long long>(cnt) > stmax) feature(3);
            if (!std::is_trivially_copyable<E>::value) feature(4);
            feature(must_throw ? 0 : 1);
            nontriv = (must_throw ? (size + cnt - limit <= 2 || absolute) : (limit - total <= 2)) && (pos > 0 || cnt > 1 || !positional);
            const uint32_t live0 = cells().live, shells0 = shells().live, blocks0 = aledger().outstanding;
            bool threw = false, righttype = false;
            std::vector<int> rv;
            const long rlen = absolute ? total : cnt;
            for (long k = 0; k < rlen && k < 70000; ++k) rv.push_back(static_cast<int>(60 + k % 30));
            try {
              E tmp(ET<E>::make(7));
              const E &ref = tmp;
              switch (op) {
                case G_PUSH_C: c.push_back(ref); m.push_back(7); break;
                case G_PUSH_M: c.push_back(std::move(tmp)); m.push_back(7); break;
                case G_EMPLACE_BACK: c.emplace_back(7); m.push_back(7); break;
                case G_EMPLACE: c.emplace(c.begin() + pos, 7); m.insert(m.begin() + pos, 7); break;
                case G_INSERT_C: c.insert(c.begin() + pos, ref); m.insert(m.begin() + pos, 7); break;
                case G_INSERT_M: c.insert(c.begin() + pos, std::move(tmp)); m.insert(m.begin() + pos, 7); break;
                case G_INSERT_N: c.insert(c.begin() + pos, static_cast<ST>(cnt), ref); m.insert(m.begin() + pos, static_cast<size_t>(cnt), 7); break;
                case G_INSERT_RANGE_PTR: {
                  std::vector<E> src;
                  for (size_t k = 0; k < rv.size(); ++k) src.push_back(ET<E>::make(rv[k]));
                  c.insert(c.begin() + pos, src.data(), src.data() + src.size());
                  m.insert(m.begin() + pos, rv.begin(), rv.end());
                  break;
                }
                case G_INSERT_RANGE_LIST: {
                  std::list<E> src;
                  for (size_t k = 0; k < rv.size(); ++k) src.push_back(ET<E>::make(rv[k]));
                  c.insert(c.begin() + pos, src.begin(), src.end());
                  m.insert(m.begin() + pos, rv.begin(), rv.end());
                  break;
                }
                case G_INSERT_RANGE_FWD: {
                  std::forward_list<E> src;
                  for (size_t k = rv.size(); k > 0; --k) src.push_front(ET<E>::make(rv[k - 1]));
                  c.insert(c.begin() + pos, src.begin(), src.end());
                  m.insert(m.begin() + pos, rv.begin(), rv.end());
                  break;
                }
                case G_INSERT_ILIST: c.insert(c.begin() + pos, {ET<E>::make(1), ET<E>::make(2), ET<E>::make(3)}); m.insert(m.begin() + pos, {1, 2, 3}); break;
                case G_RESIZE: c.resize(static_cast<ST>(total)); m.resize(static_cast<size_t>(total), 0); break;
                case G_RESIZE_V: c.resize(static_cast<ST>(total), ref); m.resize(static_cast<size_t>(total), 7); break;
                case G_ASSIGN_N: c.assign(static_cast<ST>(total), ref); m.assign(static_cast<size_t>(total), 7); break;
                case G_ASSIGN_RANGE: {
                  std::list<E> src;
                  for (size_t k = 0; k < rv.size(); ++k) src.push_back(ET<E>::make(rv[k]));
                  c.assign(src.begin(), src.end());
                  m = rv;
                  break;
                }
                case G_ASSIGN_ILIST: c.assign({ET<E>::make(1), ET<E>::make(2), ET<E>::make(3)}); m = {1, 2, 3}; break;
                case G_APPEND_N: c.append(static_cast<ST>(cnt)); m.insert(m.end(), static_cast<size_t>(cnt), 0); break;
                case G_APPEND_NV: c.append(static_cast<ST>(cnt), ref); m.insert(m.end(), static_cast<size_t>(cnt), 7); break;
                case G_APPEND_RANGE: {
                  std::deque<E> src;
                  for (size_t k = 0; k < rv.size(); ++k) src.push_back(ET<E>::make(rv[k]));
                  c.append(src.begin(), src.end());
                  m.insert(m.end(), rv.begin(), rv.end());
                  break;
                }
                case G_APPEND_ILIST: c.append({ET<E>::make(1), ET<E>::make(2), ET<E>::make(3)}); m.insert(m.end(), {1, 2, 3}); break;
                case G_RESERVE: c.reserve(static_cast<ST>(total)); break;
                case G_CTOR_N: { V t(static_cast<ST>(total)); if (static_cast<long>(t.size()) != total) violation(P08, "Vector(n) has wrong size"); break; }
                case G_CTOR_NV: { V t(static_cast<ST>(total), ref); if (static_cast<long>(t.size()) != total) violation(P08, "Vector(n,v) has wrong size"); break; }
                default: {
                  std::list<E> src;
                  for (size_t k = 0; k < rv.size(); ++k) src.push_back(ET<E>::make(rv[k]));
                  V t(src.begin(), src.end());
                  if (t.size() != static_cast<ST>(rv.size())) violation(P08, "Vector(first,last) has wrong size");
                  break;
                }
              }
            } catch (const std::out_of_range &) {
              threw = true;
              righttype = is_fcv;
            } catch (const std::overflow_error &) {
              threw = true;
              righttype = !is_fcv;
            } catch (...) {
              threw = true;
            }
            const bool ctor = op >= G_CTOR_N;
            if (must_throw) {
              if (!threw)
                violation(P08, "did not throw although the result (%ld) exceeds the limit %ld", absolute ? total : size + cnt, limit);
              else {
                if (!righttype) violation(P08, "threw the wrong exception type (expected %s)", is_fcv ? "std::out_of_range" : "std::overflow_error");
                // untouched
                std::vector<int> before;
                for (long k = 0; k < size; ++k) before.push_back(static_cast<int>(k % 50));
                if (!failed() && static_cast<long>(c.size()) != size) violation(P08, "failed call changed size() from %ld to %ld", size, static_cast<long>(c.size()));
                if (!failed() && static_cast<long>(c.capacity()) != cap0) violation(P08, "failed call changed capacity() from %ld to %ld", cap0, static_cast<long>(c.capacity()));
                if (!failed() && c.data() != data0) violation(P08, "failed call changed data()");
                for (long k = 0; k < size && !failed(); ++k)
                  if (!ET<E>::readable(c[static_cast<ST>(k)]) || val_of(c[static_cast<ST>(k)]) != before[static_cast<size_t>(k)]) violation(P08, "failed call changed element %ld", k);
                if (!failed() && ET<E>::tracked && (cells().live != live0 || shells().live != shells0))
                  violation(P08 | P02, "failed call leaked %ld element value(s)", static_cast<long>(cells().live) - static_cast<long>(live0));
                if (!failed() && aledger().outstanding != blocks0) violation(P08 | P06, "failed call changed the number of outstanding blocks");
                m = before;
              }
            } else {
              if (threw) violation(P08, "threw although the result (%ld) is within the limit %ld", absolute ? total : size + cnt, limit);
              if (!failed() && !ctor) {
                if (static_cast<size_t>(c.size()) != m.size()) violation(P08 | P01, "size() is %ld, expected %zu", static_cast<long>(c.size()), m.size());
                for (size_t k = 0; k < m.size() && !failed(); ++k)
                  if (!ET<E>::readable(c[static_cast<ST>(k)]) || val_of(c[static_cast<ST>(k)]) != m[k]) violation(P08 | P01, "element %zu differs from std::vector", k);
              }
              if (ctor) m.assign(static_cast<size_t>(size), 0), m.clear();
              if (ctor)
                for (long k = 0; k < size; ++k) m.push_back(static_cast<int>(k % 50));
            }
            // remains fully usable
            if (!failed()) {
              try {
                if (!m.empty()) { c.pop_back(); m.pop_back(); }
                if (static_cast<long>(m.size()) < limit) { c.insert(c.begin(), ET<E>::make(9)); m.insert(m.begin(), 9); }
                if (!m.empty()) { c.erase(c.begin() + static_cast<long>(m.size() / 2)); m.erase(m.begin() + static_cast<long>(m.size() / 2)); }
                for (size_t k = 0; k < m.size() && !failed(); ++k)
                  if (val_of(c[static_cast<ST>(k)]) != m[k]) violation(P08, "follow-up operations disagree with the model at %zu", k);
                c.clear();
                long refill = std::min<long>(3, limit);
                for (long k = 0; k < refill; ++k) c.emplace_back(static_cast<int>(k));
                if (static_cast<long>(c.size()) != refill) violation(P08, "refill after clear failed");
              } catch (const std::exception &e) {
                violation(P08, "follow-up operation threw %s", e.what());
              }
            }
            if (failed()) new (&c) V();
          }
          if (!failed() && (cells().live != 0 || shells().live != 0 || aledger().outstanding != 0)) violation(P08 | P02, "leak after destruction");
          enum_end(nontriv);
        }
    // at(i)
    for (long i = 0; i <= size + 4; ++i) {
      long idx = i == size + 4 ? static_cast<long>(std::min<unsigned long long>(stmax, 1000000)) : i;
      if (static_cast<unsigned long long>(idx) > stmax) continue;  // the index parameter is a size_type
      char key[160];
      snprintf(key, sizeof key, "%s%s at(%ld) size=%ld", name, heap ? "(heap)" : "", idx, size);
      if (!enum_begin(key)) continue;
      ledgers_reset();
      aledger_reset();
      {
        V c;
        for (long k = 0; k < size; ++k) c.emplace_back(static_cast<int>(k % 50));
        const V &cc = c;
        for (int cst = 0; cst < 2 && !failed(); ++cst) {
          bool threw = false, right = false;
          int got = -1;
          try {
            got = cst ? val_of(cc.at(static_cast<ST>(idx))) : val_of(c.at(static_cast<ST>(idx)));
          } catch (const std::out_of_range &) {
            threw = right = true;
          } catch (...) {
            threw = true;
          }
          if (idx >= size) {
            feature(6);
            if (!threw) violation(P08, "at(%ld) with size %ld did not throw", idx, size);
            else if (!right) violation(P08, "at(%ld) threw another type than std::out_of_range", idx);
          } else if (threw || got != idx % 50)
            violation(P08, "at(%ld) within range threw or returned %d", idx, got);
        }
        if (!failed() && static_cast<long>(c.size()) != size) violation(P08, "at() changed the size");
      }
      enum_end(idx >= size && idx <= size + 2);
    }
  }
}

// counts that overflow the arithmetic of a wide size_type: size() + count exceeds the maximum although both operands are valid
template <class V>
static void wide_count_cases(const char *name) {
  typedef typename V::value_type E;
  typedef typename V::size_type ST;
  const unsigned long long stmax = static_cast<unsigned long long>(std::numeric_limits<ST>::max());
  static const long sizes[] = {1, 3, 10};
  for (int si = 0; si < 3; ++si)
    for (int op = 0; op < 3; ++op)
      for (int ci = 0; ci < 4; ++ci)
        for (int pi = 0; pi < (op == 0 ? 3 : 1); ++pi) {
          const long size = sizes[si];
          // smallest overflowing count, the maximum, one below it, and half the range plus the rest
          const unsigned long long cnt = ci == 0 ? stmax - static_cast<unsigned long long>(size) + 1 : ci == 1 ? stmax : ci == 2 ? stmax - 1 : stmax - static_cast<unsigned long long>(size) / 2;
          if (static_cast<unsigned long long>(size) + cnt <= stmax && cnt <= stmax - static_cast<unsigned long long>(size)) continue;
          const long pos = pi == 0 ? 0 : pi == 1 ? size / 2 : size;
          char key[220];
          snprintf(key, sizeof key, "%s %s size=%ld pos=%ld count=max-%llu", name, op == 0 ? "insert(pos,n,v)" : op == 1 ? "append(n)" : "append(n,v)", size, pos, stmax - cnt);
          if (!enum_begin(key)) continue;
          ledgers_reset();
          aledger_reset();
          feature(0);
          feature(3);
          if (!std::is_trivially_copyable<E>::value) feature(4);
          {
            V c;
            for (long k = 0; k < size; ++k) c.emplace_back(static_cast<int>(k + 1));
            const long cap0 = static_cast<long>(c.capacity());
            const E *data0 = c.data();
            const uint32_t live0 = cells().live, blocks0 = aledger().outstanding;
            bool threw = false, right = false;
            try {
              E tmp(ET<E>::make(7));
              const E &ref = tmp;
              if (op == 0) c.insert(c.begin() + pos, static_cast<ST>(cnt), ref);
              else if (op == 1) c.append(static_cast<ST>(cnt));
              else c.append(static_cast<ST>(cnt), ref);
            } catch (const std::overflow_error &) {
              threw = right = true;
            } catch (...) {
              threw = true;
            }
            if (!threw) violation(P08, "did not throw although size() + count exceeds the maximum of size_type (the sum wrapped around)");
            else if (!right) violation(P08, "threw another exception type than std::overflow_error");
            if (!failed() && (static_cast<long>(c.size()) != size || static_cast<long>(c.capacity()) != cap0 || c.data() != data0)) violation(P08, "failed call changed size, capacity or data()");
            for (long k = 0; k < size && !failed(); ++k)
              if (val_of(c[static_cast<ST>(k)]) != k + 1) violation(P08, "failed call changed element %ld", k);
            if (!failed() && ET<E>::tracked && cells().live != live0) violation(P08 | P02, "failed call leaked element value(s)");
            if (!failed() && aledger().outstanding != blocks0) violation(P08 | P06, "failed call changed the number of outstanding blocks");
            if (!failed()) {
              c.emplace_back(5);
              if (static_cast<long>(c.size()) != size + 1) violation(P08, "vector unusable after the failed call");
            }
            if (failed()) new (&c) V();
          }
          if (!failed() && (cells().live != 0 || aledger().outstanding != 0)) violation(P08 | P02, "leak after destruction");
          enum_end(true);
        }
}

// swap2 between vectors of different size types: the narrow one cannot take more elements than its size_type can count
template <class Narrow, class Wide>
static void swap2_limit_cases(const char *name, bool narrow_is_fcv) {
  typedef typename Narrow::value_type E;
  typedef typename Narrow::size_type NST;
  typedef typename Wide::size_type WST;
  const long limit = narrow_is_fcv ? static_cast<long>(Narrow::kInlineCapacity) : static_cast<long>(std::numeric_limits<NST>::max());
  static const long deltas[] = {-2, -1, 0, 1, 2, 45};
  static const long nsizes[] = {0, 1, 3};
  for (int di = 0; di < 6; ++di)
    for (int ni = 0; ni < 3; ++ni)
      for (int dir = 0; dir < 2; ++dir) {
        const long wsize = limit + deltas[di], nsize = std::min(nsizes[ni], limit);
        if (wsize < 0 || static_cast<unsigned long long>(wsize) > static_cast<unsigned long long>(std::numeric_limits<WST>::max())) continue;
        char key[220];
        snprintf(key, sizeof key, "%s %s narrow_size=%ld wide_size=%ld", name, dir == 0 ? "narrow.swap2(wide)" : "wide.swap2(narrow)", nsize, wsize);
        if (!enum_begin(key)) continue;
        ledgers_reset();
        aledger_reset();
        const bool must_throw = wsize > limit;
        feature(must_throw ? 0 : 1);
        feature(7);
        if (!std::is_trivially_copyable<E>::value) feature(4);
        {
          Narrow a;
          Wide b;
          for (long k = 0; k < nsize; ++k) a.emplace_back(static_cast<int>(100 + k));
          for (long k = 0; k < wsize; ++k) b.emplace_back(static_cast<int>(k % 90));
          const long acap = static_cast<long>(a.capacity()), bcap = static_cast<long>(b.capacity());
          const uint32_t live0 = cells().live;
          bool threw = false, right = false;
          try {
            if (dir == 0) a.swap2(b);
            else b.swap2(a);
          } catch (const std::out_of_range &) {
            threw = true;
            right = narrow_is_fcv;
          } catch (const std::overflow_error &) {
            threw = true;
            right = !narrow_is_fcv;
          } catch (...) {
            threw = true;
          }
          if (must_throw) {
            if (!threw) violation(P08, "swap2 did not throw although the narrow vector cannot hold %ld elements (limit %ld)", wsize, limit);
            else if (!right) violation(P08, "swap2 threw the wrong exception type");
            if (!failed() && (static_cast<long>(a.size()) != nsize || static_cast<long>(b.size()) != wsize)) violation(P08, "failed swap2 changed a size (%ld, %ld)", static_cast<long>(a.size()), static_cast<long>(b.size()));
            if (!failed() && (static_cast<long>(a.capacity()) != acap || static_cast<long>(b.capacity()) != bcap)) violation(P08, "failed swap2 changed a capacity");
            for (long k = 0; k < nsize && !failed(); ++k)
              if (val_of(a[static_cast<NST>(k)]) != 100 + k) violation(P08, "failed swap2 changed an element of the narrow vector");
            for (long k = 0; k < wsize && !failed(); ++k)
              if (val_of(b[static_cast<WST>(k)]) != k % 90) violation(P08, "failed swap2 changed an element of the wide vector");
            if (!failed() && ET<E>::tracked && cells().live != live0) violation(P08 | P02, "failed swap2 leaked or lost element value(s)");
          } else {
            if (threw) violation(P08, "swap2 threw although %ld elements fit the narrow vector (limit %ld)", wsize, limit);
            if (!failed() && (static_cast<long>(a.size()) != wsize || static_cast<long>(b.size()) != nsize)) violation(P08 | P01, "swap2 sizes are (%ld, %ld)", static_cast<long>(a.size()), static_cast<long>(b.size()));
            for (long k = 0; k < wsize && !failed(); ++k)
              if (val_of(a[static_cast<NST>(k)]) != k % 90) violation(P08 | P01, "swap2 lost an element");
            for (long k = 0; k < nsize && !failed(); ++k)
              if (val_of(b[static_cast<WST>(k)]) != 100 + k) violation(P08 | P01, "swap2 lost an element");
          }
          if (!failed()) {
            a.clear();
            a.emplace_back(1);
            b.emplace_back(2);
            if (a.size() != 1) violation(P08, "narrow vector unusable after swap2");
          }
          if (failed()) {
            new (&a) Narrow();
            new (&b) Wide();
          }
        }
        if (!failed() && (cells().live != 0 || shells().live != 0 || aledger().outstanding != 0)) violation(P08 | P02, "leak after destruction");
        enum_end(deltas[di] >= -1 && deltas[di] <= 2);
      }
}

template <class E>
static void run_elem(const char *en) {
  std::string n(en);
  const bool big = est().thorough;
#define FCVRUN(NN)                                                                                              \
  {                                                                                                             \
    std::vector<long> sz;                                                                                       \
    for (long s = NN - 3; s <= NN; ++s) sz.push_back(s);                                                        \
    run_vec<amc::FixedCapacityVector<E, NN> >((n + "/FixedCapacityVector<" #NN ">").c_str(), NN, true, sz, false); \
  }
  FCVRUN(1) FCVRUN(2) FCVRUN(3) FCVRUN(7) FCVRUN(15)
  if (std::is_same<E, int32_t>::value || big) FCVRUN(255)  // N == maximum of the size type
  {
    std::vector<long> sz;
    for (long s = big ? 250 : 253; s <= 255; ++s) sz.push_back(s);
    run_vec<amc::vector<E, AStd<E>, uint8_t> >((n + "/vector<u8>").c_str(), 255, false, sz, false);
    run_vec<amc::SmallVector<E, 250, AAmc<E>, uint8_t> >((n + "/SmallVector<250,u8>").c_str(), 255, false, sz, false);
    run_vec<amc::SmallVector<E, 4, ARe<E>, uint8_t> >((n + "/SmallVector<4,u8>").c_str(), 255, false, sz, true);
    // an inline buffer that is partially / exactly full, far below the limit: only a huge count reaches it
    std::vector<long> szin;
    szin.push_back(7);
    szin.push_back(8);
    run_vec<amc::SmallVector<E, 8, AStd<E>, uint8_t> >((n + "/SmallVector<8,u8>(inline)").c_str(), 255, false, szin, false);
  }
  {
    std::vector<long> sz;
    for (long s = big ? 122 : 125; s <= 127; ++s) sz.push_back(s);
    run_vec<amc::vector<E, AStd<E>, int8_t> >((n + "/vector<i8>").c_str(), 127, false, sz, false);
    run_vec<amc::SmallVector<E, 3, AStd<E>, int8_t> >((n + "/SmallVector<3,i8>").c_str(), 127, false, sz, false);
  }
  if (big || std::is_same<E, int32_t>::value) {
    std::vector<long> sz;
    sz.push_back(65533);
    sz.push_back(65535);
    unsigned long mask = big ? ~0ul : ((1ul << G_PUSH_C) | (1ul << G_INSERT_N) | (1ul << G_APPEND_NV) | (1ul << G_RESIZE) | (1ul << G_EMPLACE));
    run_vec<amc::vector<E, AStd<E>, uint16_t> >((n + "/vector<u16>").c_str(), 65535, false, sz, false, mask);
  }
  wide_count_cases<amc::vector<E, AStd<E>, uint32_t> >((n + "/vector<u32>").c_str());
  wide_count_cases<amc::SmallVector<E, 4, ARe<E>, uint32_t> >((n + "/SmallVector<4,u32>").c_str());
  wide_count_cases<amc::SmallVector<E, 16, AAmc<E>, int32_t> >((n + "/SmallVector<16,i32>").c_str());
  wide_count_cases<amc::vector<E, AStd<E>, uint64_t> >((n + "/vector<u64>").c_str());
  swap2_limit_cases<amc::vector<E, AStd<E>, int8_t>, amc::vector<E, AStd<E>, uint8_t> >((n + "/vector<i8> x vector<u8>").c_str(), false);
  swap2_limit_cases<amc::SmallVector<E, 3, ARe<E>, int16_t>, amc::vector<E, ARe<E>, uint16_t> >((n + "/SmallVector<3,i16> x vector<u16>").c_str(), false);
  swap2_limit_cases<amc::vector<E, AStd<E>, uint8_t>, amc::vector<E, AStd<E>, uint32_t> >((n + "/vector<u8> x vector<u32>").c_str(), false);
  swap2_limit_cases<amc::SmallVector<E, 4, AStd<E>, int8_t>, amc::SmallVector<E, 2, AStd<E>, uint16_t> >((n + "/SmallVector<4,i8> x SmallVector<2,u16>").c_str(), false);
  swap2_limit_cases<amc::vector<E, ARe<E>, uint8_t>, amc::SmallVector<E, 3, ARe<E>, uint8_t> >((n + "/vector<u8> x SmallVector<3,u8>").c_str(), false);
  swap2_limit_cases<amc::SmallVector<E, 5, AAmc<E>, uint8_t>, amc::vector<E, AAmc<E>, uint64_t> >((n + "/SmallVector<5,u8> x vector<u64>").c_str(), false);
  swap2_limit_cases<amc::FixedCapacityVector<E, 6>, amc::vector<E, AStd<E>, uint32_t> >((n + "/FixedCapacityVector<6> x vector<u32>").c_str(), true);
  swap2_limit_cases<amc::FixedCapacityVector<E, 255>, amc::SmallVector<E, 3, AStd<E>, uint16_t> >((n + "/FixedCapacityVector<255> x SmallVector<3,u16>").c_str(), true);
  if (big) {
    std::vector<long> sz;
    sz.push_back(298);
    sz.push_back(300);
    run_vec<amc::FixedCapacityVector<E, 300> >((n + "/FixedCapacityVector<300>").c_str(), 300, true, sz, false);
  }
}

int main(int argc, char **argv) {
  enum_init(argc, argv, VF_TNAME);
  run_elem<int32_t>("int");
  run_elem<TR>("TR");
  run_elem<NTR>("NTR");
  return enum_finish(&feat, "");
}
