// exh_c10.cpp - C10: exhaustive grid of calls whose value argument refers to (or is constructed from a reference / pointer to)
// an element of the same vector. Oracle: copy the element first, then perform the call on std::vector<int>.
#include <vector>

#include <amc/fixedcapacityvector.hpp>
#include <amc/smallvector.hpp>
#include <amc/vector.hpp>

#include "alloc.hpp"
#include "elem.hpp"
#include "enum_main.hpp"

using namespace vf;

#ifndef VF_TNAME
#define VF_TNAME "exh_c10"
#endif

static const char *feat(int i) {
  static const char *n[] = {"source_at_or_after_position", "call_reallocates", "source_before_position", "count_ge_2", "inline_storage", "heap_storage", "pointer_constructed_argument"};
  return i < 7 ? n[i] : 0;
}

// elements that can also be constructed from a pointer to an element ("constructed from &v[i]")
template <class H>
struct PtrCtor {
  typedef typename H::trivially_relocatable trivially_relocatable;
  H h;
  PtrCtor() : h() {}
  explicit PtrCtor(int v) : h(v) {}
  explicit PtrCtor(const PtrCtor *p) : h(p->h) {}
  int val() const { return h.val(); }
  bool is_null() const { return h.is_null(); }
  bool magic_ok() const { return h.magic_ok(); }
  uint32_t id() const { return h.id(); }
  friend bool operator==(const PtrCtor &a, const PtrCtor &b) { return a.val() == b.val(); }
};

enum OpK { AK_PUSH_BACK, AK_INSERT, AK_INSERT_N, AK_EMPLACE, AK_EMPLACE_BACK, AK_RESIZE, AK_ASSIGN, AK_APPEND, AK_EMPLACE_PTR, AK_EMPLACE_BACK_PTR, AK_EMPLACE_CREF, AK_EMPLACE_BACK_CREF, AK_NOPS };
static const char *opname(int o) {
  static const char *n[] = {"push_back(v[i])", "insert(pos,v[i])", "insert(pos,n,v[i])", "emplace(pos,v[i])", "emplace_back(v[i])", "resize(n,v[i])", "assign(n,v[i])",
                            "append(n,v[i])", "emplace(pos,&v[i])", "emplace_back(&v[i])", "emplace(pos,as_const(v)[i])", "emplace_back(as_const(v)[i])"};
  return n[o];
}

template <class V, bool HasPtr>
struct PtrOps {
  static void emplace(V &c, long pos, long src) { c.emplace(c.begin() + pos, &c[static_cast<typename V::size_type>(src)]); }
  static void emplace_back(V &c, long src) { c.emplace_back(&c[static_cast<typename V::size_type>(src)]); }
};
template <class V>
struct PtrOps<V, false> {
  static void emplace(V &, long, long) {}
  static void emplace_back(V &, long) {}
};

template <class V, bool HasPtr>
static void run_flavour(const char *name, bool force_heap) {
  typedef typename V::value_type E;
  typedef typename V::size_type ST;
  const bool is_fcv = std::is_same<typename V::allocator_type, amc::vec::EmptyAlloc>::value;
  const long N = static_cast<long>(V::kInlineCapacity);
  const long lim = is_fcv ? N : 1000;
  for (int op = 0; op < AK_NOPS; ++op) {
    if (!HasPtr && (op == AK_EMPLACE_PTR || op == AK_EMPLACE_BACK_PTR)) continue;
    for (long size = 1; size <= 6; ++size)
      for (long pos = 0; pos <= size; ++pos)
        for (long src = 0; src < size; ++src)
          for (long cnt = 0; cnt <= 4; ++cnt)
            for (int spare = 0; spare < 4; ++spare) {
              const bool positional = (op == AK_INSERT || op == AK_INSERT_N || op == AK_EMPLACE || op == AK_EMPLACE_PTR || op == AK_EMPLACE_CREF);
              const bool counted = (op == AK_INSERT_N || op == AK_RESIZE || op == AK_ASSIGN || op == AK_APPEND);
              if (!positional && pos > 0) continue;
              if (!counted && cnt > 0) continue;
              long target = cnt;  // resize/assign: absolute size = cnt*2 (0,2,4,6,8) to cover shrink and grow
              if (op == AK_RESIZE || op == AK_ASSIGN) target = cnt * 2;
              long newsize = op == AK_RESIZE || op == AK_ASSIGN ? target : size + (counted ? cnt : 1);
              if (newsize > lim) continue;
              long spare_slots = spare == 0 ? 0 : spare == 1 ? 1 : spare == 2 ? (counted ? cnt : 1) : 20;
              char key[200];
              snprintf(key, sizeof key, "%s %s size=%ld pos=%ld src=%ld cnt=%ld spare=%ld%s", name, opname(op), size, pos, src, op == AK_RESIZE || op == AK_ASSIGN ? target : cnt, spare_slots,
                       force_heap ? " heap" : "");
              if (!enum_begin(key)) continue;
              ledgers_reset();
              aledger_reset();
              bool nontriv = false;
              {
                V c;
                std::vector<int> m;
                if (force_heap && !is_fcv) c.reserve(static_cast<ST>(N + 1));
                for (long k = 0; k < size; ++k) {
                  c.emplace_back(10 + static_cast<int>(k));
                  m.push_back(10 + static_cast<int>(k));
                }
                if (!is_fcv) {
                  if (!force_heap || size > N) c.shrink_to_fit();
                  long want = size + spare_slots;
                  if (want > static_cast<long>(c.capacity())) c.reserve(static_cast<ST>(want));
                }
                const long cap0 = static_cast<long>(c.capacity());
                const char *b = reinterpret_cast<const char *>(&c), *q = reinterpret_cast<const char *>(c.data());
                feature(q >= b && q < b + sizeof(V) ? 4 : 5);
                const bool realloc = newsize > cap0;
                if (positional ? src >= pos : false) feature(0);
                if (positional && src < pos) feature(2);
                if (realloc) feature(1);
                if (cnt >= 2) feature(3);
                if (op == AK_EMPLACE_PTR || op == AK_EMPLACE_BACK_PTR) feature(6);
                nontriv = (positional && src >= pos) || realloc;
                const int v = m[static_cast<size_t>(src)];  // as if copied first
                long ret = pos;
                try {
                  const ST s = static_cast<ST>(src);
                  switch (op) {
                    case AK_PUSH_BACK: c.push_back(c[s]); m.push_back(v); break;
                    case AK_INSERT: ret = c.insert(c.begin() + pos, c[s]) - c.begin(); m.insert(m.begin() + pos, v); break;
                    case AK_INSERT_N: ret = c.insert(c.begin() + pos, static_cast<ST>(cnt), c[s]) - c.begin(); m.insert(m.begin() + pos, static_cast<size_t>(cnt), v); break;
                    case AK_EMPLACE: ret = c.emplace(c.begin() + pos, c[s]) - c.begin(); m.insert(m.begin() + pos, v); break;
                    case AK_EMPLACE_BACK: c.emplace_back(c[s]); m.push_back(v); break;
                    case AK_RESIZE: c.resize(static_cast<ST>(target), c[s]); m.resize(static_cast<size_t>(target), v); break;
                    case AK_ASSIGN: c.assign(static_cast<ST>(target), c[s]); m.assign(static_cast<size_t>(target), v); break;
                    case AK_APPEND: c.append(static_cast<ST>(cnt), c[s]); m.insert(m.end(), static_cast<size_t>(cnt), v); break;
                    case AK_EMPLACE_PTR: PtrOps<V, HasPtr>::emplace(c, pos, src); ret = pos; m.insert(m.begin() + pos, v); break;
                    case AK_EMPLACE_CREF: { const V &cc = c; ret = c.emplace(c.begin() + pos, cc[s]) - c.begin(); m.insert(m.begin() + pos, v); break; }
                    case AK_EMPLACE_BACK_CREF: { const V &cc = c; c.emplace_back(cc[s]); m.push_back(v); break; }
                    default: PtrOps<V, HasPtr>::emplace_back(c, src); m.push_back(v); break;
                  }
                } catch (const std::exception &e) {
                  violation(P10, "unexpected exception %s", e.what());
                }
                if (!failed() && positional && ret != pos) violation(P10, "returned position %ld, expected %ld", ret, pos);
                if (!failed()) {
                  if (static_cast<size_t>(c.size()) != m.size())
                    violation(P10, "size() is %ld, std::vector has %zu", static_cast<long>(c.size()), m.size());
                  else
                    for (size_t k = 0; k < m.size() && !failed(); ++k) {
                      int got = ET<E>::readable(c[static_cast<ST>(k)]) ? val_of(c[static_cast<ST>(k)]) : -1;
                      if (got != m[k]) violation(P10, "element %zu is %d, std::vector (copy first, then call) has %d", k, got, m[k]);
                    }
                }
                if (!failed() && ET<E>::tracked && cells().live != m.size()) violation(P10 | P02, "%u values alive, %zu visible", cells().live, m.size());
                if (failed()) new (&c) V();
              }
              if (!failed() && (cells().live != 0 || shells().live != 0 || aledger().outstanding != 0)) violation(P10 | P02, "leak after destruction");
              enum_end(nontriv);
            }
  }
}

namespace vf {
template <class H>
struct ET<PtrCtor<H> > {
  static const bool tracked = true;
  static const bool copyable = true;
  enum { maxval = 30000 };
  static PtrCtor<H> make(int v) { return PtrCtor<H>(v); }
  static int val(const PtrCtor<H> &e) { return e.val(); }
  static uint32_t id(const PtrCtor<H> &e) { return e.id(); }
  static bool readable(const PtrCtor<H> &e) { return e.magic_ok() && !e.is_null(); }
  static bool magic_ok(const PtrCtor<H> &e) { return e.magic_ok(); }
};
}  // namespace vf

template <class E, bool HasPtr>
static void run_elem(const char *en) {
  std::string n(en);
  run_flavour<amc::vector<E, AStd<E>, uint32_t>, HasPtr>((n + "/vector").c_str(), false);
  run_flavour<amc::vector<E, ARe<E>, uint8_t>, HasPtr>((n + "/vector<re,u8>").c_str(), false);
  run_flavour<amc::SmallVector<E, 7, AStd<E>, uint32_t>, HasPtr>((n + "/SmallVector7").c_str(), false);
  run_flavour<amc::SmallVector<E, 4, AAmc<E>, uint32_t>, HasPtr>((n + "/SmallVector4").c_str(), false);
  run_flavour<amc::SmallVector<E, 4, AAmc<E>, uint32_t>, HasPtr>((n + "/SmallVector4").c_str(), true);
  run_flavour<amc::FixedCapacityVector<E, 12>, HasPtr>((n + "/FixedCapacityVector12").c_str(), false);
}

int main(int argc, char **argv) {
  enum_init(argc, argv, VF_TNAME);
  run_elem<int32_t, false>("int");
  run_elem<TC<7, 1>, false>("TC7");
  run_elem<TR, false>("TR");
  run_elem<NTR, false>("NTR");
  run_elem<PtrCtor<TR>, true>("PtrCtor<TR>");
  run_elem<PtrCtor<NTR>, true>("PtrCtor<NTR>");
  return enum_finish(&feat, "");
}
