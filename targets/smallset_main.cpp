// smallset_main.cpp - one SmallSet configuration per binary: -DVF_S=<set type> -DVF_SB=<sibling type> -DVF_NAME
#include "smallset_interp.hpp"
#include "interp_main.hpp"

using namespace vf;
typedef VF_S TheS;
typedef VF_SB TheSB;

static void ss_weights(int prop, uint32_t *w) {
  static const uint32_t base[kSmallSetNumOps] = {5, 5, 3, 3, 4, 2, 4, 2, 3, 2, 3, 2, 5, 5, 3, 1, 3, 4, 3, 2, 3, 3, 1, 3, 4, 1, 3, 2, 0, 1, 0};
  for (int i = 0; i < kSmallSetNumOps; ++i) w[i] = base[i];
  if (prop == 14) w[28] = 6;
  if (prop == 9) w[30] = 14;
  if (prop == 11) { w[13] = 9; w[14] = 6; w[24] = 8; w[12] = 6; }
  if (prop == 5) { w[17] = 7; w[18] = 5; w[27] = 4; w[19] = 4; w[20] = 5; w[21] = 5; w[23] = 3; w[12] = 7; w[13] = 7; w[15] = 2; }
}

int main(int argc, char **argv) {
  MainArgs a = parse_args(argc, argv);
  int prop = parse_prop(a.prop);
  static SmallSetInterp<TheS, TheSB> I(VF_NAME);
  I.relocate_enabled = (prop == 14);
  for (int q = 1; q + 1 < argc; ++q)
    if (!strcmp(argv[q], "--portability")) I.portability = atoi(argv[q + 1]);
  uint32_t w[kSmallSetNumOps];
  ss_weights(prop, w);
  return interp_main(argc, argv, I, w, kSmallSetNumOps, &set_feat_name);
}
