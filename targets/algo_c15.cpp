// algo_c15.cpp - C15: amc:: memory algorithms against obviously-correct reference semantics, every length 0..8 (and longer),
// every source iterator category, raw-pointer and wrapped-forward destinations, every throw index. Built as C++11/14/17/20.
#include <deque>
#include <forward_list>
#include <list>
#include <vector>

#include <amc/memory.hpp>

#include "alloc.hpp"
#include "elem.hpp"
#include "enum_main.hpp"
#include "iters.hpp"

using namespace vf;

#ifndef VF_TNAME
#define VF_TNAME "algo_c15"
#endif

static const char *feat(int i) {
  static const char *n[] = {"len_ge_2", "non_pointer_iterator", "non_trivial_value", "throw_at_interior_index", "throw_at_first", "throw_at_last", "wrapped_forward_destination", "relocate", "array_construct_at", "converting_source_and_destination_types", "constructor_overload_choice"};
  return i < 11 ? n[i] : 0;
}

// element whose move constructor can throw (only here)
class ThrM {
 public:
  ThrM() : _id(0), _magic(kLiveMagic) { fault_point(); _id = cell_new(0); }
  explicit ThrM(int v) : _id(0), _magic(kLiveMagic) { fault_point(); _id = cell_new(v); }
  ThrM(const ThrM &o) : _id(0), _magic(kLiveMagic) { int v = o.val(); fault_point(); _id = cell_new(v); }
  ThrM(ThrM &&o) : _id(0), _magic(kLiveMagic) { fault_point(); _id = o._id; o._id = 0; }
  struct NoFault {};
  ThrM(NoFault, const ThrM &o) noexcept : _id(0), _magic(kLiveMagic) { _id = cell_new(o.val()); }
  void assign_nofault(const ThrM &o) noexcept { int v = o.val(); if (_id) cells().val[_id] = v; else _id = cell_new(v); }
  ThrM &operator=(const ThrM &o) { int v = o.val(); fault_point(); if (_id) cells().val[_id] = v; else _id = cell_new(v); return *this; }
  ThrM &operator=(ThrM &&o) { if (this != &o) { if (_id) cell_free(_id, "ThrM move assignment"); _id = o._id; o._id = 0; } return *this; }
  ~ThrM() {
    if (_magic != kLiveMagic) { violation(P15 | P02, "ThrM destructor on raw/destroyed memory"); return; }
    if (_id) cell_free(_id, "ThrM destructor");
    _magic = kDeadMagic;
  }
  int val() const {
    if (_magic != kLiveMagic) { violation(P15 | P02, "ThrM read outside lifetime"); return -1; }
    if (_id == 0) return -2;  // moved-from
    return cell_live(_id) ? cells().val[_id] : -1;
  }
  bool is_null() const { return _id == 0; }
  bool magic_ok() const { return _magic == kLiveMagic; }
  uint32_t id() const { return _id; }
 private:
  uint32_t _id, _magic;
};

// move-only variant: no copy constructor to fall back to, the move constructor can throw
class ThrMO : public ThrM {
 public:
  ThrMO() : ThrM() {}
  explicit ThrMO(int v) : ThrM(v) {}
  ThrMO(const ThrMO &) = delete;
  ThrMO &operator=(const ThrMO &) = delete;
  ThrMO(ThrMO &&o) : ThrM(std::move(o)) {}
  ThrMO &operator=(ThrMO &&o) { ThrM::operator=(std::move(o)); return *this; }
};

// throwing move but noexcept copy (the copy is not a fault point)
class ThrMNC : public ThrM {
 public:
  ThrMNC() : ThrM() {}
  explicit ThrMNC(int v) : ThrM(v) {}
  ThrMNC(const ThrMNC &o) noexcept : ThrM(NoFault(), o) {}
  ThrMNC &operator=(const ThrMNC &o) noexcept { ThrM::assign_nofault(o); return *this; }
  ThrMNC(ThrMNC &&o) noexcept(false) : ThrM(std::move(o)) {}
  ThrMNC &operator=(ThrMNC &&o) noexcept(false) { ThrM::operator=(std::move(o)); return *this; }
};

// forward iterator over raw storage (not a pointer: selects the non-memcpy code paths)
template <class E>
struct FwdRaw {
  typedef std::forward_iterator_tag iterator_category;
  typedef E value_type;
  typedef std::ptrdiff_t difference_type;
  typedef E *pointer;
  typedef E &reference;
  E *p;
  FwdRaw() : p(0) {}
  explicit FwdRaw(E *q) : p(q) {}
  reference operator*() const { return *p; }
  pointer operator->() const { return p; }
  FwdRaw &operator++() { ++p; return *this; }
  FwdRaw operator++(int) { FwdRaw t(*this); ++p; return t; }
  friend bool operator==(const FwdRaw &a, const FwdRaw &b) { return a.p == b.p; }
  friend bool operator!=(const FwdRaw &a, const FwdRaw &b) { return a.p != b.p; }
};
template <class E> static E *raw_of(E *p) { return p; }
template <class E> static E *raw_of(std::reverse_iterator<E *> it) { return it.base(); }
template <class E> static E *raw_of(FwdRaw<E> it) { return it.p; }

template <class E>
struct Buf {  // raw storage with canaries around the working range
  static const int MAXN = 320;
  alignas(64) unsigned char bytes[(MAXN + 4) * sizeof(E)];
  E *at(long i) { return reinterpret_cast<E *>(bytes) + 2 + i; }
  void scribble() { memset(bytes, 0x5C, sizeof bytes); }
  bool canary_ok(long from) {  // [0,2) and [2+from, end) untouched
    for (size_t i = 0; i < 2 * sizeof(E); ++i)
      if (bytes[i] != 0x5C) return false;
    for (size_t i = (2 + from) * sizeof(E); i < sizeof bytes; ++i)
      if (bytes[i] != 0x5C) return false;
    return true;
  }
};

template <class E> static int vget(const E &e) { return val_of(e); }
static int vget(const ThrM &e) { return e.val(); }
template <class E> struct Mk { static E make(int v) { return ET<E>::make(v); } };
template <> struct Mk<ThrM> { static ThrM make(int v) { return ThrM(v); } };
template <> struct Mk<ThrMO> { static ThrMO make(int v) { return ThrMO(v); } };
template <> struct Mk<ThrMNC> { static ThrMNC make(int v) { return ThrMNC(v); } };
template <class E> struct IsTracked { static const bool value = ET<E>::tracked; };
template <> struct IsTracked<ThrM> { static const bool value = true; };
template <> struct IsTracked<ThrMO> { static const bool value = true; };
template <> struct IsTracked<ThrMNC> { static const bool value = true; };
template <class E> struct IsTriv { static const bool value = std::is_trivially_copyable<E>::value; };

struct ArmGuard {
  ArmGuard(bool arm, uint64_t k) {
    fault_reset();
    if (arm) { faults().armed = true; faults().target = k; } else faults().counting = true;
  }
  ~ArmGuard() { faults().armed = faults().counting = false; }
};

// ---- algorithms under test, uniformly callable: run(first, last, len, dest) -> number of dest elements reported constructed
enum Algo { A_COPY, A_COPY_N, A_MOVE, A_MOVE_N, A_NALGO_RANGE };
static const char *algo_name(int a) {
  static const char *n[] = {"uninitialized_copy", "uninitialized_copy_n", "uninitialized_move", "uninitialized_move_n"};
  return n[a];
}

template <class E, class D>
struct RangeFn {  // called by with_range with the source iterators
  int algo;
  long len;
  D dest;
  bool arm;
  uint64_t k;
  long ret_dist, src_adv;
  bool threw;
  template <class It>
  void operator()(It f, It l) {
    ArmGuard g(arm, k);
    threw = false;
    ret_dist = src_adv = -1;
    try {
      switch (algo) {
        case A_COPY: ret_dist = static_cast<long>(raw_of(amc::uninitialized_copy(f, l, dest)) - raw_of(dest)); break;
        case A_COPY_N: ret_dist = static_cast<long>(raw_of(amc::uninitialized_copy_n(f, len, dest)) - raw_of(dest)); break;
        case A_MOVE: ret_dist = static_cast<long>(raw_of(amc::uninitialized_move(f, l, dest)) - raw_of(dest)); break;
        default: {
          std::pair<It, D> pr = amc::uninitialized_move_n(f, len, dest);
          ret_dist = static_cast<long>(raw_of(pr.second) - raw_of(dest));
          src_adv = adv(f, pr.first, l);
          break;
        }
      }
    } catch (const InjectedFault &) {
      threw = true;
    }
  }
  template <class It>
  long adv(It f, It got, It l) {
    long n = 0;
    for (It x = f; !(x == got); ++x, ++n)
      if (n > len + 1) return -99;
    (void)l;
    return n;
  }
  long adv(InputIt<E> f, InputIt<E> got, InputIt<E>) {  // single pass: position is shared
    (void)f;
    return got.st ? static_cast<long>(got.st->pos) : -1;
  }
};

template <class E, class D>
static void range_case(const char *ename, int algo, int kind, long len, const char *dname, D (*mkdest)(E *)) {
  const bool movy = (algo == A_MOVE || algo == A_MOVE_N);
  if (kind == RK_INPUT && movy) return;          // the statement lists single-pass sources for the copy family only
  if (kind == RK_MOVE && !movy && false) return;
  static Buf<E> buf;
  std::vector<int> vals;
  for (long i = 0; i < len; ++i) vals.push_back(static_cast<int>((i * 7 + 3) % 50));
  // dry run: count fault points
  uint64_t P = 0;
  {
    ledgers_reset();
    buf.scribble();
    RangeFn<E, D> fn = {algo, len, mkdest(buf.at(0)), false, 0, 0, 0, false};
    with_range<E>(kind, vals, fn);
    P = faults().passed;
    for (long i = 0; i < len; ++i) buf.at(i)->~E();
  }
  for (uint64_t k = 0; k <= P; ++k) {  // k == P: no fault
    char key[200];
    snprintf(key, sizeof key, "%s<%s> src=%s dst=%s len=%ld throw=%s%lu", algo_name(algo), ename, range_kind_name(kind), dname, len, k == P ? "none/" : "", (unsigned long)k);
    if (!enum_begin(key)) continue;
    ledgers_reset();
    buf.scribble();
    if (len >= 2) feature(0);
    if (kind >= RK_DEQUE) feature(1);
    if (!IsTriv<E>::value) feature(2);
    if (k < P) feature(k == 0 ? 4 : (k + 1 == P ? 5 : 3));
    if (dname[0] == 'f') feature(6);
    RangeFn<E, D> fn = {algo, len, mkdest(buf.at(0)), k < P, k, 0, 0, false};
    with_range<E>(kind, vals, fn);
    // the source container is gone now (its elements were destroyed by their owner)
    if (k < P) {
      if (!fn.threw)
        violation(P15, "injected exception did not propagate");
      else {
        if (IsTracked<E>::value && cells().live != 0) violation(P15 | P02, "%u object(s) created by the algorithm were not destroyed after the throw", cells().live);
        if (!failed() && !IsTriv<E>::value && !buf.canary_ok(0)) {
          // objects were constructed then destroyed in [0,k): bytes there may differ; check outside [0,len)
          if (!buf.canary_ok(len)) violation(P15, "memory outside the destination range was written");
        }
      }
    } else {
      if (fn.threw) violation(P15, "exception without injected fault");
      if (!failed() && fn.ret_dist != len) violation(P15, "returned iterator is %ld past the destination start, expected %ld", fn.ret_dist, len);
      if (!failed() && algo == A_MOVE_N && fn.src_adv != len) violation(P15, "returned source iterator advanced by %ld, expected %ld", fn.src_adv, len);
      for (long i = 0; i < len && !failed(); ++i)
        if (vget(*buf.at(i)) != vals[static_cast<size_t>(i)]) violation(P15, "destination element %ld is %d, expected %d", i, vget(*buf.at(i)), vals[static_cast<size_t>(i)]);
      if (!failed() && !buf.canary_ok(len)) violation(P15, "memory outside the destination range was written");
      if (!failed() && IsTracked<E>::value && cells().live != static_cast<uint32_t>(len)) violation(P15 | P02, "%u live values after the call, expected %ld", cells().live, len);
      for (long i = 0; i < len; ++i) buf.at(i)->~E();
      if (!failed() && IsTracked<E>::value && cells().live != 0) violation(P15 | P02, "leak after destroying the destination");
    }
    bool nontriv = len >= 2 && (kind >= RK_DEQUE || !IsTriv<E>::value || (k > 0 && k + 1 < P));
    enum_end(nontriv);
  }
}

// ---- construct / destroy family on raw storage
enum CAlgo { C_DEFAULT, C_DEFAULT_N, C_VALUE, C_VALUE_N, C_CONSTRUCT_AT, C_DESTROY, C_DESTROY_N, C_DESTROY_AT, C_NALGO };
static const char *calgo_name(int a) {
  static const char *n[] = {"uninitialized_default_construct", "uninitialized_default_construct_n", "uninitialized_value_construct", "uninitialized_value_construct_n",
                            "construct_at", "destroy", "destroy_n", "destroy_at"};
  return n[a];
}
template <class E, class D>
static void construct_case(const char *ename, int algo, long len, const char *dname, D (*mkdest)(E *)) {
  static Buf<E> buf;
  if ((algo == C_CONSTRUCT_AT || algo == C_DESTROY_AT) && len != 1) return;
  const bool destroys = (algo == C_DESTROY || algo == C_DESTROY_N || algo == C_DESTROY_AT);
  uint64_t P = 0;
  for (int pass = 0; pass < 2; ++pass) {
    uint64_t kmax = pass == 0 ? 0 : P;
    for (uint64_t k = 0; k <= kmax; ++k) {
      bool dry = pass == 0;
      char key[200];
      snprintf(key, sizeof key, "%s<%s> dst=%s len=%ld throw=%s%lu", calgo_name(algo), ename, dname, len, k == P ? "none/" : "", (unsigned long)k);
      if (!dry && !enum_begin(key)) continue;
      ledgers_reset();
      buf.scribble();
      if (destroys)
        for (long i = 0; i < len; ++i) new (buf.at(i)) E(Mk<E>::make(static_cast<int>(i + 1)));
      D first = mkdest(buf.at(0)), last = mkdest(buf.at(len));
      bool threw = false;
      long ret = -1;
      {
        ArmGuard g(!dry && k < P, k);
        try {
          switch (algo) {
            case C_DEFAULT: amc::uninitialized_default_construct(first, last); ret = len; break;
            case C_DEFAULT_N: ret = static_cast<long>(raw_of(amc::uninitialized_default_construct_n(first, len)) - buf.at(0)); break;
            case C_VALUE: amc::uninitialized_value_construct(first, last); ret = len; break;
            case C_VALUE_N: ret = static_cast<long>(raw_of(amc::uninitialized_value_construct_n(first, len)) - buf.at(0)); break;
            case C_CONSTRUCT_AT: ret = amc::construct_at(buf.at(0), Mk<E>::make(5)) == buf.at(0) ? 1 : -1; break;
            case C_DESTROY: amc::destroy(first, last); ret = len; break;
            case C_DESTROY_N: ret = static_cast<long>(raw_of(amc::destroy_n(first, len)) - buf.at(0)); break;
            default: amc::destroy_at(buf.at(0)); ret = 1; break;
          }
        } catch (const InjectedFault &) {
          threw = true;
        }
        if (dry) P = faults().passed;
      }
      if (dry) {
        if (!destroys && !threw)
          for (long i = 0; i < len; ++i) buf.at(i)->~E();
        continue;
      }
      if (len >= 2) feature(0);
      if (dname[0] == 'f') feature(1), feature(6);
      if (!IsTriv<E>::value) feature(2);
      if (k < P) feature(k == 0 ? 4 : (k + 1 == P ? 5 : 3));
      if (k < P) {
        if (!threw) violation(P15, "injected exception did not propagate");
        if (!failed() && IsTracked<E>::value && cells().live != 0) violation(P15 | P02, "%u object(s) created by the algorithm were not destroyed after the throw", cells().live);
        if (!failed() && !buf.canary_ok(len)) violation(P15, "memory outside the range was written");
      } else {
        if (threw) violation(P15, "exception without injected fault");
        if (!failed() && ret != len) violation(P15, "returned iterator/pointer is %ld past the start, expected %ld", ret, len);
        if (!failed() && !buf.canary_ok(len)) violation(P15, "memory outside the range was written");
        if (!destroys) {
          const bool value_init = (algo == C_VALUE || algo == C_VALUE_N);
          for (long i = 0; i < len && !failed(); ++i) {
            int expect = algo == C_CONSTRUCT_AT ? 5 : 0;
            // default-initialisation of trivial types leaves indeterminate values: only class types and value-init are compared
            if (value_init || algo == C_CONSTRUCT_AT || !std::is_trivially_default_constructible<E>::value)
              if (vget(*buf.at(i)) != expect) violation(P15, "element %ld is %d, expected %d", i, vget(*buf.at(i)), expect);
          }
          if (!failed() && IsTracked<E>::value && cells().live != static_cast<uint32_t>(len)) violation(P15 | P02, "%u live values, expected %ld", cells().live, len);
          for (long i = 0; i < len; ++i) buf.at(i)->~E();
        }
        if (!failed() && IsTracked<E>::value && cells().live != 0) violation(P15 | P02, "%u value(s) still alive at the end", cells().live);
      }
      enum_end(len >= 2 && (dname[0] == 'f' || !IsTriv<E>::value || (k > 0 && k + 1 < P)));
    }
  }
}

// ---- relocate family: sources live in raw storage too (the algorithm ends their lifetime)
enum RAlgo { R_RELOCATE, R_RELOCATE_N, R_RELOCATE_AT, R_NALGO };
static const char *ralgo_name(int a) {
  static const char *n[] = {"uninitialized_relocate", "uninitialized_relocate_n", "relocate_at"};
  return n[a];
}
template <class E, class S, class D>
static void relocate_case(const char *ename, int algo, long len, const char *sname, S (*mksrc)(E *), const char *dname, D (*mkdest)(E *)) {
  static Buf<E> sbuf, dbuf;
  if (algo == R_RELOCATE_AT && len != 1) return;
  const bool trivially_reloc = amc::is_trivially_relocatable<E>::value;
  uint64_t P = 0;
  for (int pass = 0; pass < 2; ++pass) {
    uint64_t kmax = pass == 0 ? 0 : P;
    for (uint64_t k = 0; k <= kmax; ++k) {
      bool dry = pass == 0;
      char key[220];
      snprintf(key, sizeof key, "%s<%s> src=%s dst=%s len=%ld throw=%s%lu", ralgo_name(algo), ename, sname, dname, len, k == P ? "none/" : "", (unsigned long)k);
      if (!dry && !enum_begin(key)) continue;
      ledgers_reset();
      sbuf.scribble();
      dbuf.scribble();
      std::vector<uint32_t> ids;
      for (long i = 0; i < len; ++i) {
        new (sbuf.at(i)) E(Mk<E>::make(static_cast<int>(10 + i)));
      }
      const bool rev = sname[0] == 'r';
      S sf = rev ? mksrc(sbuf.at(len)) : mksrc(sbuf.at(0)), sl = rev ? mksrc(sbuf.at(0)) : mksrc(sbuf.at(len));
      D d = mkdest(dbuf.at(0));
      bool threw = false;
      long ret = -1, sadv = -1;
      {
        ArmGuard g(!dry && k < P, k);
        try {
          switch (algo) {
            case R_RELOCATE: ret = static_cast<long>(raw_of(amc::uninitialized_relocate(sf, sl, d)) - dbuf.at(0)); break;
            case R_RELOCATE_N: {
              std::pair<S, D> pr = amc::uninitialized_relocate_n(sf, len, d);
              ret = static_cast<long>(raw_of(pr.second) - dbuf.at(0));
              sadv = rev ? static_cast<long>(sbuf.at(len) - raw_of(pr.first)) : static_cast<long>(raw_of(pr.first) - sbuf.at(0));
              break;
            }
            default: ret = amc::relocate_at(sbuf.at(0), dbuf.at(0)) == dbuf.at(0) ? 1 : -1; break;
          }
        } catch (const InjectedFault &) {
          threw = true;
        }
        if (dry) P = faults().passed;
      }
      if (dry) {
        if (!threw)
          for (long i = 0; i < len; ++i) dbuf.at(i)->~E();
        continue;
      }
      feature(7);
      if (len >= 2) feature(0);
      if (sname[0] != 'p' || dname[0] == 'f') feature(1);
      if (dname[0] == 'f') feature(6);
      if (!IsTriv<E>::value) feature(2);
      if (k < P) feature(k == 0 ? 4 : (k + 1 == P ? 5 : 3));
      if (k < P) {
        if (!threw) violation(P15, "injected exception did not propagate");
        // sources of a relocate stay alive (possibly moved-from for those already moved), nothing created survives
        for (long i = 0; i < len && !failed(); ++i) {
          if (!ET<E>::magic_ok(*sbuf.at(i))) violation(P15 | P02, "source element %ld is no longer alive after a failed relocate", i);
        }
        if (!failed()) {
          for (long i = 0; i < len; ++i) sbuf.at(i)->~E();
          if (IsTracked<E>::value && cells().live != 0) violation(P15 | P02, "%u object(s) created by the failed relocate were not destroyed", cells().live);
        }
        if (!failed() && !dbuf.canary_ok(len)) violation(P15, "memory outside the destination range was written");
      } else {
        if (threw) violation(P15, "exception without injected fault");
        if (!failed() && ret != len) violation(P15, "returned destination iterator is %ld past the start, expected %ld", ret, len);
        if (!failed() && algo == R_RELOCATE_N && sadv != len) violation(P15, "returned source iterator advanced by %ld, expected %ld", sadv, len);
        for (long i = 0; i < len && !failed(); ++i)
          if (vget(*dbuf.at(i)) != 10 + (rev ? len - 1 - i : i))
            violation(P15, "relocated element %ld is %d, expected %ld", i, vget(*dbuf.at(i)), 10 + (rev ? len - 1 - i : i));
        if (!failed() && IsTracked<E>::value && cells().live != static_cast<uint32_t>(len))
          violation(P15 | P02, "%u live values after relocation of %ld elements (sources must be gone, destinations alive)", cells().live, len);
        if (!failed() && !trivially_reloc && std::is_same<E, NTR>::value && shells().live != static_cast<uint32_t>(len))
          violation(P15 | P02, "%u element objects alive after relocation of %ld: sources were not destroyed", shells().live, len);
        if (!failed() && !dbuf.canary_ok(len)) violation(P15, "memory outside the destination range was written");
        for (long i = 0; i < len; ++i) dbuf.at(i)->~E();
        if (!failed() && IsTracked<E>::value && cells().live != 0) violation(P15 | P02, "%u value(s) still alive at the end", cells().live);
      }
      enum_end(len >= 2 && (sname[0] == 'f' || dname[0] == 'f' || !IsTriv<E>::value || (k > 0 && k + 1 < P)));
    }
  }
}

// ---- construct_at on C arrays (an extension of the pre-C++20 emulation: element-wise construction with clean-up)
#if __cplusplus < 202002L
template <class E, int N>
static void array_case(const char *ename) {
  typedef E Arr[N];
  static Buf<E> sbuf, dbuf;
  uint64_t P = 0;
  for (int pass = 0; pass < 2; ++pass) {
    uint64_t kmax = pass == 0 ? 0 : P;
    for (uint64_t k = 0; k <= kmax; ++k) {
      const bool dry = pass == 0;
      char key[200];
      snprintf(key, sizeof key, "construct_at<%s[%d]> from rvalue array throw=%s%lu", ename, N, k == P ? "none/" : "", (unsigned long)k);
      if (!dry && !enum_begin(key)) continue;
      ledgers_reset();
      sbuf.scribble();
      dbuf.scribble();
      for (int i = 0; i < N; ++i) new (sbuf.at(i)) E(Mk<E>::make(20 + i));
      Arr *src = reinterpret_cast<Arr *>(sbuf.at(0));
      Arr *dst = reinterpret_cast<Arr *>(dbuf.at(0));
      bool threw = false;
      Arr *ret = 0;
      {
        ArmGuard g(!dry && k < P, k);
        try {
          ret = amc::construct_at(dst, std::move(*src));
        } catch (const InjectedFault &) {
          threw = true;
        }
        if (dry) P = faults().passed;
      }
      if (dry) {
        if (!threw)
          for (int i = 0; i < N; ++i) dbuf.at(i)->~E();
        for (int i = 0; i < N; ++i) sbuf.at(i)->~E();
        continue;
      }
      if (N >= 2) feature(0);
      feature(8);
      if (!IsTriv<E>::value) feature(2);
      if (k < P) feature(k == 0 ? 4 : (k + 1 == P ? 5 : 3));
      if (k < P) {
        if (!threw) violation(P15, "injected exception did not propagate");
        for (int i = 0; i < N && !failed(); ++i)
          if (!ET<E>::magic_ok(*sbuf.at(i))) violation(P15 | P02, "source element %d is no longer alive after a failed construct_at", i);
        if (!failed()) {
          for (int i = 0; i < N; ++i) sbuf.at(i)->~E();
          if (IsTracked<E>::value && cells().live != 0) violation(P15 | P02, "%u element(s) created by the failed array construct_at were not destroyed", cells().live);
        }
        if (!failed() && !dbuf.canary_ok(N)) violation(P15, "memory outside the destination array was written");
      } else {
        if (threw) violation(P15, "exception without injected fault");
        if (!failed() && ret != dst) violation(P15, "construct_at does not return its first argument");
        for (int i = 0; i < N && !failed(); ++i)
          if (vget(*dbuf.at(i)) != 20 + i) violation(P15, "array element %d is %d, expected %d", i, vget(*dbuf.at(i)), 20 + i);
        if (!failed() && !dbuf.canary_ok(N)) violation(P15, "memory outside the destination array was written");
        for (int i = 0; i < N; ++i) sbuf.at(i)->~E();
        if (!failed() && IsTracked<E>::value && cells().live != static_cast<uint32_t>(N)) violation(P15 | P02, "%u live values after moving an array of %d", cells().live, N);
        for (int i = 0; i < N; ++i) dbuf.at(i)->~E();
        if (!failed() && IsTracked<E>::value && cells().live != 0) violation(P15 | P02, "%u value(s) still alive at the end", cells().live);
      }
      enum_end(N >= 2 && !IsTriv<E>::value);
    }
  }
}
template <class E>
static void array_cases(const char *ename) {
  array_case<E, 1>(ename);
  array_case<E, 2>(ename);
  array_case<E, 3>(ename);
  array_case<E, 5>(ename);
  array_case<E, 8>(ename);
}
#else
template <class E>
static void array_cases(const char *) {}
#endif

template <class E> static E *mk_ptr(E *p) { return p; }
template <class E> static std::reverse_iterator<E *> mk_rev(E *p) { return std::reverse_iterator<E *>(p); }
template <class E> static FwdRaw<E> mk_fwd(E *p) { return FwdRaw<E>(p); }

// ---- source and destination of different value types: the algorithms construct D from *src like the standard ones, never by raw bytes
template <class S, class D> struct Conv { static D ref(const S &v) { return D(v); } };
template <class S, class D, class SIt, class DIt>
static void convert_case(const char *sn, const char *dn, int algo, long len, const char *itn, SIt (*mksrc)(S *), DIt (*mkdst)(D *)) {
  static Buf<S> sbuf;
  static Buf<D> dbuf;
  char key[220];
  static const char *an[] = {"uninitialized_copy", "uninitialized_copy_n", "uninitialized_move", "uninitialized_move_n", "uninitialized_relocate", "uninitialized_relocate_n"};
  snprintf(key, sizeof key, "%s %s->%s iterators=%s len=%ld", an[algo], sn, dn, itn, len);
  if (!enum_begin(key)) return;
  ledgers_reset();
  sbuf.scribble();
  dbuf.scribble();
  feature(9);
  if (len >= 2) feature(0);
  static const int pat[] = {0, 1, 2, 0x80, 0xFF, 3, 0x7F, 100, 0x55, 0xAA, 7};
  for (long i = 0; i < len; ++i) new (sbuf.at(i)) S(static_cast<S>(pat[i % 11] + (sizeof(S) > 1 ? 256 * (i % 5) : 0)));
  std::vector<S> srcvals;
  for (long i = 0; i < len; ++i) srcvals.push_back(*sbuf.at(i));
  SIt f = mksrc(sbuf.at(0)), l = mksrc(sbuf.at(len));
  DIt d = mkdst(dbuf.at(0));
  long ret = -1;
  switch (algo) {
    case 0: ret = static_cast<long>(raw_of(amc::uninitialized_copy(f, l, d)) - dbuf.at(0)); break;
    case 1: ret = static_cast<long>(raw_of(amc::uninitialized_copy_n(f, len, d)) - dbuf.at(0)); break;
    case 2: ret = static_cast<long>(raw_of(amc::uninitialized_move(f, l, d)) - dbuf.at(0)); break;
    case 3: ret = static_cast<long>(raw_of(amc::uninitialized_move_n(f, len, d).second) - dbuf.at(0)); break;
    case 4: ret = static_cast<long>(raw_of(amc::uninitialized_relocate(f, l, d)) - dbuf.at(0)); break;
    default: ret = static_cast<long>(raw_of(amc::uninitialized_relocate_n(f, len, d).second) - dbuf.at(0)); break;
  }
  if (ret != len) violation(P15, "returned iterator is %ld past the destination start, expected %ld", ret, len);
  for (long i = 0; i < len && !failed(); ++i) {
    const D expect = Conv<S, D>::ref(srcvals[static_cast<size_t>(i)]);
    if (memcmp(dbuf.at(i), &expect, sizeof(D)) != 0)
      violation(P15, "destination element %ld does not hold the value converted from the source (a %s built from %s %ld): raw bytes were copied", i, dn, sn,
                static_cast<long>(srcvals[static_cast<size_t>(i)]));
  }
  if (!failed() && !dbuf.canary_ok(len)) violation(P15, "memory outside the destination range was written");
  enum_end(len >= 2);
}
template <class S, class D>
static void convert_cases(const char *sn, const char *dn) {
  static const long lens[] = {0, 1, 2, 5, 11, 40};
  for (int algo = 0; algo < 6; ++algo)
    for (unsigned a = 0; a < 6; ++a) {
      convert_case<S, D, S *, D *>(sn, dn, algo, lens[a], "ptr,ptr", &mk_ptr<S>, &mk_ptr<D>);
      convert_case<S, D, FwdRaw<S>, D *>(sn, dn, algo, lens[a], "fwd,ptr", &mk_fwd<S>, &mk_ptr<D>);
      convert_case<S, D, S *, FwdRaw<D> >(sn, dn, algo, lens[a], "ptr,fwd", &mk_ptr<S>, &mk_fwd<D>);
    }
}

// ---- construct_at with one argument of the element type: the constructor overload resolution picks, as in ::new (p) T(arg)
struct FwdCtor {  // trivially copyable, with a perfect-forwarding constructor that wins for a non-const lvalue
  int v, how;
  FwdCtor() : v(0), how(0) {}
  template <class U, class = typename std::enable_if<!std::is_same<typename std::decay<U>::type, int>::value>::type>
  FwdCtor(U &&u) : v(u.v), how(3) {}
  explicit FwdCtor(int x) : v(x), how(9) {}
  FwdCtor(const FwdCtor &) = default;
  FwdCtor(FwdCtor &&) = default;
};
struct TwoCopies {  // T(T&) and T(const T&) differ
  int v, how;
  TwoCopies() : v(0), how(0) {}
  explicit TwoCopies(int x) : v(x), how(9) {}
  TwoCopies(TwoCopies &o) : v(o.v), how(1) {}
  TwoCopies(const TwoCopies &o) : v(o.v), how(2) {}
  TwoCopies(TwoCopies &&o) : v(o.v), how(4) {}
  ~TwoCopies() {}
};
template <class T>
static void overload_case(const char *tn) {
  for (int cat = 0; cat < 3; ++cat) {
    char key[160];
    snprintf(key, sizeof key, "construct_at<%s> argument category=%s", tn, cat == 0 ? "lvalue" : cat == 1 ? "const lvalue" : "rvalue");
    if (!enum_begin(key)) continue;
    feature(10);
    alignas(T) unsigned char a[sizeof(T)], b[sizeof(T)];
    T src(41);
    const T &csrc = src;
    T *pa = reinterpret_cast<T *>(a), *pb = reinterpret_cast<T *>(b);
    T tmp1(41), tmp2(41);
    if (cat == 0) {
      ::new (static_cast<void *>(pb)) T(src);
      amc::construct_at(pa, src);
    } else if (cat == 1) {
      ::new (static_cast<void *>(pb)) T(csrc);
      amc::construct_at(pa, csrc);
    } else {
      ::new (static_cast<void *>(pb)) T(std::move(tmp1));
      amc::construct_at(pa, std::move(tmp2));
    }
    if (pa->v != 41) violation(P15, "construct_at built value %d instead of 41", pa->v);
    if (!failed() && pa->how != pb->how)
      violation(P15, "construct_at used another constructor (tag %d) than ::new (p) T(arg) (tag %d): 1 T(T&), 2 T(const T&), 3 forwarding template, 4 T(T&&), 0 none (raw copy)", pa->how, pb->how);
    pa->~T();
    pb->~T();
    enum_end(true);
  }
}

// ---- value-initialisation of a non-trivial type with an implicit default constructor: its scalar members are zeroed
struct ImplicitDefault {
  NTR h;       // makes the type non-trivial
  int a;
  double b;
  char c[3];
};
template <class D>
static void value_init_case(int algo, long len, const char *dname, D (*mkdest)(ImplicitDefault *)) {
  static Buf<ImplicitDefault> buf;
  char key[200];
  snprintf(key, sizeof key, "%s<ImplicitDefault{NTR,int,double,char[3]}> dst=%s len=%ld", algo == 0 ? "uninitialized_value_construct" : "uninitialized_value_construct_n", dname, len);
  if (!enum_begin(key)) return;
  ledgers_reset();
  buf.scribble();  // 0x5C everywhere: a default-initialised scalar member would keep it
  feature(2);
  if (len >= 2) feature(0);
  D first = mkdest(buf.at(0)), last = mkdest(buf.at(len));
  if (algo == 0) amc::uninitialized_value_construct(first, last);
  else (void)amc::uninitialized_value_construct_n(first, len);
  for (long i = 0; i < len && !failed(); ++i) {
    const ImplicitDefault &e = *buf.at(i);
    if (e.a != 0 || e.b != 0.0 || e.c[0] != 0 || e.c[1] != 0 || e.c[2] != 0)
      violation(P15, "value-initialised element %ld has non-zero scalar members (a=%d): it was default-initialised", i, e.a);
    if (!failed() && val_of(e.h) != 0) violation(P15, "class member of element %ld was not default constructed", i);
  }
  for (long i = 0; i < len; ++i) buf.at(i)->~ImplicitDefault();
  if (!failed() && cells().live != 0) violation(P15 | P02, "leak");
  enum_end(len >= 2);
}

template <class E>
static void run_elem(const char *ename, bool copyable_family, bool has_magic) {
  std::vector<long> lens;
  for (long l = 0; l <= 8; ++l) lens.push_back(l);
  lens.push_back(70);   // deque sources spanning several blocks
  lens.push_back(133);
  unsigned long long x = est().seed * 2862933555777941757ull + 3037000493ull;
  for (int q = 0; q < (est().thorough ? 10 : 3); ++q) {
    x = x * 2862933555777941757ull + 3037000493ull;
    lens.push_back(9 + static_cast<long>((x >> 35) % (est().thorough ? 290 : 60)));
  }
  for (size_t li = 0; li < lens.size(); ++li) {
    long len = lens[li];
    if (copyable_family)
      for (int algo = 0; algo < A_NALGO_RANGE; ++algo)
        for (int kind = 0; kind < RK_COUNT; ++kind) {
          range_case<E, E *>(ename, algo, kind, len, "ptr", &mk_ptr<E>);
          range_case<E, FwdRaw<E> >(ename, algo, kind, len, "fwd", &mk_fwd<E>);
        }
    for (int algo = 0; algo < C_NALGO; ++algo) {
      construct_case<E, E *>(ename, algo, len, "ptr", &mk_ptr<E>);
      construct_case<E, FwdRaw<E> >(ename, algo, len, "fwd", &mk_fwd<E>);
    }
    if (has_magic)
      for (int algo = 0; algo < R_NALGO; ++algo) {
        relocate_case<E, E *, E *>(ename, algo, len, "ptr", &mk_ptr<E>, "ptr", &mk_ptr<E>);
        relocate_case<E, FwdRaw<E>, E *>(ename, algo, len, "fwd", &mk_fwd<E>, "ptr", &mk_ptr<E>);
        relocate_case<E, E *, FwdRaw<E> >(ename, algo, len, "ptr", &mk_ptr<E>, "fwd", &mk_fwd<E>);
        relocate_case<E, FwdRaw<E>, FwdRaw<E> >(ename, algo, len, "fwd", &mk_fwd<E>, "fwd", &mk_fwd<E>);
        if (algo != R_RELOCATE_AT) relocate_case<E, std::reverse_iterator<E *>, E *>(ename, algo, len, "rev", &mk_rev<E>, "ptr", &mk_ptr<E>);
      }
  }
}

// trivially copyable elements have no magic: relocation is checked by value only
template <class E>
struct PlainMagic {};

int main(int argc, char **argv) {
  enum_init(argc, argv, VF_TNAME);
  run_elem<int32_t>("int", true, true);
  run_elem<TC<7, 1> >("TC7", true, true);
  run_elem<TR>("TR", true, true);
  run_elem<NTR>("NTR", true, true);
  run_elem<ThrM>("ThrM", true, true);
  run_elem<ThrMO>("ThrMO(move-only, throwing move)", false, true);
  array_cases<int32_t>("int");
  array_cases<TR>("TR");
  array_cases<NTR>("NTR");
  array_cases<ThrM>("ThrM");
  array_cases<ThrMO>("ThrMO");
  run_elem<ThrMNC>("ThrMNC(throwing move, noexcept copy)", false, true);
  convert_cases<uint8_t, bool>("uint8_t", "bool");
  convert_cases<int32_t, float>("int32_t", "float");
  convert_cases<int16_t, int32_t>("int16_t", "int32_t");
  convert_cases<int8_t, uint8_t>("int8_t", "uint8_t");
  convert_cases<uint32_t, int32_t>("uint32_t", "int32_t");
  convert_cases<char, bool>("char", "bool");
  for (int algo = 0; algo < 2; ++algo)
    for (long len = 0; len <= 6; ++len) {
      value_init_case<ImplicitDefault *>(algo, len, "ptr", &mk_ptr<ImplicitDefault>);
      value_init_case<FwdRaw<ImplicitDefault> >(algo, len, "fwd", &mk_fwd<ImplicitDefault>);
    }
  overload_case<FwdCtor>("FwdCtor");
  overload_case<TwoCopies>("TwoCopies");
  return enum_finish(&feat, "");
}
