// exh_c04.cpp - C04/C11: bounded-exhaustive search over the abstract states (content, inline|large) of a SmallSet.
// A breadth-first search finds a shortest tape per reachable state of slot 0 over a key domain of k = N+2 keys; from every
// state every operation of the alphabet (every key, every position, every pair of positions, every other operand) is applied
// on a freshly rebuilt set, with all oracles of the SmallSet interpreter (model, iterator contract, ledgers) switched on.
#include <map>
#include <queue>

#include "smallset_interp.hpp"
#include "enum_main.hpp"

using namespace vf;
typedef VF_S TheS;
typedef VF_SB TheSB;

#ifndef VF_TNAME
#define VF_TNAME "exh_c04"
#endif

static Op mk(int code, int a, int b, int c, int d) {
  Op o = {static_cast<uint8_t>(code), static_cast<uint8_t>(a), static_cast<uint8_t>(b), static_cast<uint8_t>(c), static_cast<uint8_t>(d)};
  return o;
}

int main(int argc, char **argv) {
  enum_init(argc, argv, VF_TNAME);
  static SmallSetInterp<TheS, TheSB> I(VF_TNAME);
  const int N = static_cast<int>(SmallSetN<TheS>::value);
  const int k = N + 2;  // key domain 0..k-1
  // prefixes prepare the other operands: s1 inline {0,2}, s2 large (all keys), sibling0 {1,3}
  std::vector<std::vector<Op> > prefixes;
  {
    std::vector<Op> p;
    prefixes.push_back(p);  // others empty
    p.push_back(mk(6, 1, 0, 0, 0));
    if (N >= 2) p.push_back(mk(6, 1, 0, 0, 2));
    for (int q = 0; q < k; ++q) p.push_back(mk(6, 2, 0, 0, q));
    prefixes.push_back(p);
  }
  // alphabet on slot 0 (i = 0); second operand j via a = 0 + 3*j
  std::vector<Op> alpha;
  for (int v = 0; v < k; ++v) {
    alpha.push_back(mk(0, 0, 0, 0, v));   // insert(const&)   (move-only: skipped by the interpreter)
    alpha.push_back(mk(1, 0, 0, 0, v));   // insert(&&)
    alpha.push_back(mk(6, 0, 0, 0, v));   // emplace
    alpha.push_back(mk(12, 0, 0, 0, v));  // erase(key)
    alpha.push_back(mk(16, 0, 0, 0, v));  // find/contains/count
    alpha.push_back(mk(8, 0, 0, 0, v));   // extract(key)
    for (int h = 0; h <= k; ++h) {
      alpha.push_back(mk(3, 0, h, 0, v));  // insert(hint,&&)
      alpha.push_back(mk(7, 0, h, 0, v));  // emplace_hint
    }
  }
  for (int p = 0; p < k; ++p) {
    alpha.push_back(mk(13, 0, p, 0, 0));  // erase(pos)
    alpha.push_back(mk(9, 0, p, 0, 0));   // extract(pos)
    for (int l = 0; l <= k; ++l) alpha.push_back(mk(14, 0, p, l, 0));  // erase(first,last)
  }
  alpha.push_back(mk(15, 0, 0, 0, 0));  // clear
  alpha.push_back(mk(10, 0, 0, 0, 0));  // insert(node)
  for (int h = 0; h <= k; ++h) alpha.push_back(mk(11, 0, h, 0, 0));  // insert(hint,node)
  for (int j = 1; j <= 2; ++j) {
    alpha.push_back(mk(17, 3 * j, 0, 0, 0));   // merge(s_j)
    alpha.push_back(mk(17, j, 0, 0, 0));       // s_j.merge(s0)   (i = j, j = 0)
    alpha.push_back(mk(19, 3 * j, 0, 0, 0));   // swap
    alpha.push_back(mk(20, 3 * j, 0, 0, 0));   // copy assign from s_j
    alpha.push_back(mk(20, 3 * j, 1, 0, 0));   // move assign from s_j
    alpha.push_back(mk(20, j, 0, 0, 0));       // s_j = s0
    alpha.push_back(mk(23, 3 * j, 0, 0, 0));   // compare s0 with s_j
    alpha.push_back(mk(23, j, 0, 0, 0));       // compare s_j with s0
    alpha.push_back(mk(21, 3 * j, 4, 0, 0));   // copy construct from s_j
    alpha.push_back(mk(21, 3 * j, 5, 0, 0));   // move construct from s_j
  }
  alpha.push_back(mk(23, 0, 0, 0, 0));          // compare with itself
  for (int sb = 0; sb < 2; ++sb) {
    alpha.push_back(mk(18, 0, sb, 0, 0));  // merge(sibling)
    alpha.push_back(mk(27, 0, sb, 0, 0));  // sibling.merge(s0)
  }
  for (unsigned mask = 0; mask < (1u << k); ++mask) alpha.push_back(mk(24, 0, 0, (mask >> 8) & 0xff, mask & 0xff));  // erase loop for every subset
  alpha.push_back(mk(25, 0, 1, 0, 2));  // observers
  alpha.push_back(mk(22, 0, 1, 2, 0));  // operator=(ilist)
  alpha.push_back(mk(5, 0, 1, 2, 0));   // insert(ilist)
  for (int len = 0; len <= 6; ++len) alpha.push_back(mk(4, 0, 3, len, 2));  // insert(range)

  unsigned long states_total = 0, transitions = 0;
  for (size_t pi = 0; pi < prefixes.size(); ++pi) {
    std::map<uint64_t, std::vector<Op> > shortest;
    std::queue<uint64_t> todo;
    // sibling feed as part of prefix 1
    std::vector<Op> pre = prefixes[pi];
    if (pi == 1) pre.push_back(mk(26, 0, 1, 2, 1));
    {
      std::vector<Op> t = pre;
      I.run(t.empty() ? 0 : &t[0], t.size());
      if (I.final_state == ~0ull) {
        fprintf(stderr, "prefix fails\n");
        return 3;
      }
      shortest[I.final_state] = t;
      todo.push(I.final_state);
    }
    while (!todo.empty() && !est().stop) {
      uint64_t st = todo.front();
      todo.pop();
      ++states_total;
      const std::vector<Op> base = shortest[st];
      for (size_t ai = 0; ai < alpha.size() && !est().stop; ++ai) {
        const Op &o = alpha[ai];
        char key[200];
        snprintf(key, sizeof key, "prefix=%zu state=%llx%s op=%d,%d,%d,%d,%d", pi, (unsigned long long)(st & 0xffffffffull) | ((st >> 40) << 36), ((st >> 32) & 1) ? "(inline)" : "(large)", o.code, o.a, o.b, o.c, o.d);
        // enum_begin resets the per-case context; the interpreter's run() does the same again: we account the case ourselves
        // replay of one case: the search itself has to run (the key names a state of the search), only the outcome of the
        // named case is reported
        const bool replaying = !est().replay_key.empty();
        std::vector<Op> t = base;
        t.push_back(o);
        est().current = key;
        if (crash_area()) {
          CrashArea *a = crash_area();
          size_t n = strlen(key);
          memcpy(a->tape, key, n + 1);
          a->len = static_cast<uint32_t>(n);
          a->running = 2;
        }
        bool failed_now = I.run(&t[0], t.size());
        ++transitions;
        if (replaying) {
          if (est().replay_key != key) {
            if (I.final_state != ~0ull && !shortest.count(I.final_state)) {
              shortest[I.final_state] = t;
              todo.push(I.final_state);
            }
            continue;
          }
          ++est().evaluations;
          est().stop = true;  // found the case: report it and end the search
          if (failed_now) {
            est().fail_key = key;
            est().fail_msg = ctx().msg;
          } else {
            est().fail_key.clear();
          }
          break;
        }
        ++est().evaluations;
        if (failed_now) {
          est().stop = true;
          est().fail_key = key;
          est().fail_msg = ctx().msg;
          break;
        }
        if (I.final_state != ~0ull && !shortest.count(I.final_state)) {
          shortest[I.final_state] = t;
          todo.push(I.final_state);
        }
      }
    }
  }
  char extra[128];
  snprintf(extra, sizeof extra, "{\"states\":%lu,\"transitions\":%lu,\"alphabet\":%zu}", states_total, transitions, alpha.size());
  return enum_finish(&set_feat_name, extra);
}
