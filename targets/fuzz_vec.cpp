// fuzz_vec.cpp - libFuzzer target for one vector configuration (-DVF_V, -DVF_NAME)
#include "vec_interp.hpp"
#include "fuzz_main.hpp"
using namespace vf;
extern "C" int LLVMFuzzerTestOneInput(const uint8_t *data, size_t size) {
  static VecInterp<VF_V> I(VF_NAME);
  static bool once = false;
  if (!once) {
    once = true;
    int prop = parse_prop(getenv("VF_PROP") ? getenv("VF_PROP") : "C01");
    I.relocate_enabled = (prop == 14);
    I.within_n = (prop == 5);
  }
  return fuzz_one(I, data, size, &vec_feat_name);
}
