// exh_c12.cpp - C12: complete enumeration of (content subset, hint position, value, call form) for hinted insertion.
#include <set>

#include <amc/flatset.hpp>
#include <amc/fixedcapacityvector.hpp>
#include <amc/smallvector.hpp>

#include "cmp.hpp"
#include "elem.hpp"
#include "enum_main.hpp"

using namespace vf;

static const char *feat(int i) {
  static const char *n[] = {"hint_is_not_lower_bound", "value_present", "hint_correct", "hint_at_end", "hint_at_begin"};
  return i < 5 ? n[i] : 0;
}

template <class S>
static void run_config(const char *name, int K, int cmpstate) {
  typedef typename S::value_type E;
  typedef typename S::key_compare Cmp;
  Cmp cmp = CmpTraits<Cmp>::make(cmpstate);
  ModelCmp mc = CmpTraits<Cmp>::model(cmp);
  for (unsigned mask = 0; mask < (1u << K); ++mask) {
    // content: odd values 1,3,..,2K-1 selected by mask (duplicates under coarse comparators collapse: first wins, like std::set)
    std::set<int, ModelCmp> base(mc);
    for (int b = 0; b < K; ++b)
      if (mask & (1u << b)) base.insert(2 * b + 1);
    for (int hint = 0; hint <= static_cast<int>(base.size()); ++hint)
      for (int v = 0; v <= 2 * K; ++v)
        for (int form = 0; form < 4; ++form) {
          char key[160];
          snprintf(key, sizeof key, "%s state=%d mask=%u hint=%d value=%d form=%s", name, cmpstate, mask, hint, v, form == 0 ? "insert(hint,const&)" : form == 1 ? "insert(hint,&&)" : form == 2 ? "emplace_hint" : "emplace_hint(element&&)");
          if (!enum_begin(key)) continue;
          ledgers_reset();
          aledger_reset();
          bool nontriv = false;
          {
            S s(cmp), plain(cmp);
            for (std::set<int, ModelCmp>::const_iterator it = base.begin(); it != base.end(); ++it) {
              s.emplace(*it);
              plain.emplace(*it);
            }
            std::set<int, ModelCmp> m(base);
            bool present = m.find(v) != m.end();
            long lb = static_cast<long>(std::distance(m.begin(), m.lower_bound(v)));
            long ub = static_cast<long>(std::distance(m.begin(), m.upper_bound(v)));
            if (hint != lb) feature(0);
            if (present) feature(1);
            if (hint == lb || (present && hint == ub)) feature(2);
            if (hint == static_cast<int>(m.size())) feature(3);
            if (hint == 0) feature(4);
            nontriv = hint != lb || present;
            typename S::const_iterator r;
            size_t before = s.size();
            try {
              E tmp(ET<E>::make(v));
              if (form == 0) {
                const E &ref = tmp;
                r = s.insert(s.begin() + hint, ref);
              } else if (form == 1)
                r = s.insert(s.begin() + hint, std::move(tmp));
              else if (form == 2)
                r = s.emplace_hint(s.begin() + hint, v);
              else
                r = s.emplace_hint(s.begin() + hint, std::move(tmp));
              plain.emplace(v);
            } catch (const std::exception &e) {
              violation(P12, "exception %s", e.what());
            }
            m.insert(v);
            if (!failed()) {
              // metamorphic: same sequence as plain insertion, and as std::set
              if (s.size() != plain.size() || !std::equal(s.begin(), s.end(), plain.begin()))
                violation(P12, "hinted insertion gives another sequence than insert(value)");
              else if (s.size() != m.size())
                violation(P12, "hinted insertion gives size %zu, std::set has %zu", (size_t)s.size(), m.size());
              else {
                std::set<int, ModelCmp>::const_iterator mit = m.begin();
                for (typename S::const_iterator it = s.begin(); it != s.end(); ++it, ++mit)
                  if (val_of(*it) != *mit) {
                    violation(P12, "hinted insertion: element %ld is %d, std::set has %d", (long)(it - s.begin()), val_of(*it), *mit);
                    break;
                  }
              }
              if (!failed() && s.size() != before + (present ? 0 : 1)) violation(P12, "size grew by %zu, value was %s", (size_t)(s.size() - before), present ? "present" : "absent");
              if (!failed()) {
                std::set<int, ModelCmp>::const_iterator mf = m.find(v);
                if (r < s.begin() || r >= s.end())
                  violation(P12, "returned iterator is outside [begin,end)");
                else if ((r - s.begin()) != std::distance(m.begin(), mf) || val_of(*r) != *mf)
                  violation(P12, "returned iterator designates %d at %ld, expected %d at %ld", val_of(*r), (long)(r - s.begin()), *mf, (long)std::distance(m.begin(), mf));
              }
              for (typename S::const_iterator it = s.begin(); !failed() && it != s.end() && it + 1 != s.end(); ++it)
                if (!cmp(*it, *(it + 1))) violation(P12, "set not strictly increasing after hinted insertion");
            }
          }
          if (!failed() && (cells().live != 0 || shells().live != 0)) violation(P12 | P02, "leak after hinted insertion");
          enum_end(nontriv);
        }
  }
}

int main(int argc, char **argv) {
  enum_init(argc, argv, "exh_c12");
  const int K = est().thorough ? 11 : 8;
  typedef int32_t I;
  run_config<amc::FlatSet<I, std::less<I>, AStd<I>, amc::vector<I, AStd<I> > > >("less/amc::vector/int", K, 0);
  run_config<amc::FlatSet<NTR, std::greater<NTR>, AStd<NTR>, amc::SmallVector<NTR, 4, AStd<NTR> > > >("greater/SmallVector4/NTR", K, 0);
  run_config<amc::FlatSet<TR, Coarse<TR>, amc::vec::EmptyAlloc, amc::FixedCapacityVector<TR, 24> > >("coarse/FixedCapacityVector24/TR", K, 0);
  for (int st = 0; st < 6; ++st) run_config<amc::FlatSet<I, Stateful<I>, AStd<I>, std::vector<I, AStd<I> > > >("stateful/std::vector/int", K, st);
  run_config<amc::FlatSet<NTR, Coarse<NTR>, AStd<NTR>, amc::vector<NTR, AStd<NTR> > > >("coarse/amc::vector/NTR", K, 0);
  run_config<amc::FlatSet<TR, Stateful<TR>, ARe<TR>, amc::SmallVector<TR, 4, ARe<TR> > > >("stateful/SmallVector4/TR", K, 3);
  return enum_finish(&feat, "");
}
