// alloc_c06.cpp - C06 (last clause): amc::allocator's reallocate preserves the live elements, for relocatable and non relocatable T,
// for every (old capacity, new capacity, live count) of a small grid; through the real SimpleAllocator and through the ledger.
#include <amc/allocator.hpp>

#include "alloc.hpp"
#include "elem.hpp"
#include "enum_main.hpp"

using namespace vf;

static const char *feat(int i) {
  static const char *n[] = {"grows", "shrinks", "non_relocatable_type", "all_slots_live", "ledger_allocator"};
  return i < 5 ? n[i] : 0;
}

template <class A>
static void run_alloc(const char *an, const char *tn, bool ledger) {
  typedef typename A::value_type T;
  for (long oldc = 0; oldc <= 12; ++oldc)
    for (long newc = 1; newc <= 14; ++newc)  // the containers never ask for a zero capacity (they deallocate instead)
      for (long live = 0; live <= std::min(oldc, newc); ++live) {
        char key[160];
        snprintf(key, sizeof key, "%s<%s>::reallocate old=%ld new=%ld live=%ld", an, tn, oldc, newc, live);
        if (!enum_begin(key)) continue;
        ledgers_reset();
        aledger_reset();
        if (newc > oldc) feature(0);
        if (newc < oldc) feature(1);
        if (!amc::is_trivially_relocatable<T>::value) feature(2);
        if (live == oldc && live > 0) feature(3);
        if (ledger) feature(4);
        {
          A a;
          T *p = oldc ? a.allocate(static_cast<size_t>(oldc)) : nullptr;
          for (long i = 0; i < live; ++i) new (p + i) T(ET<T>::make(static_cast<int>(40 + i)));
          T *q = 0;
          try {
            q = a.reallocate(p, static_cast<size_t>(oldc), static_cast<size_t>(newc), static_cast<size_t>(live));
          } catch (const std::exception &e) {
            violation(P06, "reallocate threw %s", e.what());
          }
          if (!failed()) {
            for (long i = 0; i < live && !failed(); ++i)
              if (!ET<T>::readable(q[i]) || val_of(q[i]) != 40 + i) violation(P06, "live element %ld is not preserved by reallocate (old %ld, new %ld, live %ld)", i, oldc, newc, live);
            if (!failed() && ET<T>::tracked && cells().live != static_cast<uint32_t>(live)) violation(P06 | P02, "%u element values alive after reallocate, expected %ld", cells().live, live);
            if (!failed() && std::is_same<T, NTR>::value && shells().live != static_cast<uint32_t>(live)) violation(P06 | P02, "%u element objects alive after reallocate, expected %ld", shells().live, live);
            for (long i = 0; i < live; ++i) q[i].~T();
            if (q) a.deallocate(q, static_cast<size_t>(newc));
            if (!failed() && ledger && aledger().outstanding != 0) violation(P06, "%u block(s) outstanding after deallocate", aledger().outstanding);
            if (!failed() && (cells().live != 0 || shells().live != 0)) violation(P06 | P02, "leak");
          }
        }
        enum_end(live >= 2 && newc != oldc);
      }
}

int main(int argc, char **argv) {
  enum_init(argc, argv, "alloc_c06");
  run_alloc<amc::allocator<int32_t> >("amc::allocator", "int", false);
  run_alloc<amc::allocator<TC<7, 1> > >("amc::allocator", "TC7", false);
  run_alloc<amc::allocator<TR> >("amc::allocator", "TR", false);
  run_alloc<amc::allocator<NTR> >("amc::allocator", "NTR", false);
  run_alloc<AAmc<TR> >("BasicAllocatorWrapper<ledger>", "TR", true);
  run_alloc<AAmc<NTR> >("BasicAllocatorWrapper<ledger>", "NTR", true);
  run_alloc<AAmc<TC<12, 4> > >("BasicAllocatorWrapper<ledger>", "TC12", true);
  return enum_finish(&feat, "");
}
