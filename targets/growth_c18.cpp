// growth_c18.cpp - C18: geometric growth. Counters: capacity changes (= reallocations), elements relocated, allocator requests.
#include <cmath>

#include <amc/smallvector.hpp>
#include <amc/vector.hpp>

#include "alloc.hpp"
#include "elem.hpp"
#include "enum_main.hpp"

using namespace vf;

static const char *feat(int i) {
  static const char *n[] = {"n_ge_16_and_3_reallocations", "start_inline", "start_reserved", "start_after_shrink", "size_type_limit_reached", "reserve_probe", "shrink_probe", "bulk_growth_out_of_inline", "bulk_growth_on_heap", "stolen_buffer_not_above_N"};
  return i < 10 ? n[i] : 0;
}
static int ceil_log2(unsigned long n) {
  int k = 0;
  while ((1ul << k) < n) ++k;
  return k;
}

// after shrink_to_fit the block the vector holds must really have capacity() slots: rewriting the capacity word alone reduces nothing
template <class V>
static void check_block_matches_capacity(const V &v, bool inl, const char *when) {
  if (!alloc_on_ledger<typename V::allocator_type>::value || inl || v.capacity() == 0) return;
  AllocEntry *en = aledger_find(v.data());
  // the ledger counts elements for the std-like allocators and bytes for the amc::allocator-like one: compare bytes
  const size_t block_bytes = en ? en->count * en->esize : 0, want = static_cast<size_t>(v.capacity()) * sizeof(typename V::value_type);
  if (en && en->live == 1 && block_bytes != want)
    violation(P18, "%s: capacity() is %lu (%lu bytes) but the heap block still has %lu bytes", when, (unsigned long)v.capacity(), (unsigned long)want, (unsigned long)block_bytes);
}

// start: 0 empty, 1 inline/partially filled (k elements), 2 after reserve(r), 3 after shrink_to_fit
template <class V>
static void grow_case(const char *name, int start, long k, long n) {
  typedef typename V::value_type E;
  typedef typename V::size_type ST;
  const long N = static_cast<long>(V::kInlineCapacity);
  const long stmax = static_cast<long>(std::min<unsigned long long>(std::numeric_limits<ST>::max(), 100000000ull));
  char key[160];
  snprintf(key, sizeof key, "grow %s start=%d k=%ld n=%ld", name, start, k, n);
  if (!enum_begin(key)) return;
  ledgers_reset();
  aledger_reset();
  bool nontriv = false;
  {
    V v;
    if (start == 1) {
      feature(1);
      for (long q = 0; q < k; ++q) v.emplace_back(1);
    } else if (start == 2) {
      feature(2);
      v.reserve(static_cast<ST>(k));
    } else if (start == 3) {
      feature(3);
      for (long q = 0; q < k; ++q) v.emplace_back(1);
      v.shrink_to_fit();
    }
    long room = stmax - static_cast<long>(v.size());
    long todo = std::min(n, room);
    if (todo < n) feature(4);
    uint64_t req0 = aledger().requests, mv0 = events().relocations(), re0 = aledger().realloc_elems;
    long reallocs = 0, relocated = 0;
    long cap = static_cast<long>(v.capacity());
    for (long q = 0; q < todo; ++q) {
      long size_before = static_cast<long>(v.size());
      if (q & 1)
        v.emplace_back(2);
      else
        v.push_back(ET<E>::make(2));
      long c2 = static_cast<long>(v.capacity());
      if (c2 != cap) {
        ++reallocs;
        relocated += size_before;
        if (c2 < cap) violation(P18, "capacity decreased from %ld to %ld while appending", cap, c2);
        // growth factor: at least 1.5 unless the size type limits it
        if (cap > 0 && c2 < stmax && 2 * c2 < 3 * cap) violation(P18, "capacity grew from %ld to %ld: factor below 1.5 without being limited by size_type", cap, c2);
        cap = c2;
      }
    }
    if (todo > 0) {
      long bound_re = 2 * ceil_log2(static_cast<unsigned long>(todo)) + 4;
      if (reallocs > bound_re) violation(P18, "%ld reallocations while appending %ld elements one by one (bound %ld)", reallocs, todo, bound_re);
      if (relocated > 4 * todo + 16 + 4 * static_cast<long>(k)) violation(P18, "%ld element relocations while appending %ld elements (bound %ld)", relocated, todo, 4 * todo + 16 + 4 * k);
      if (alloc_on_ledger<typename V::allocator_type>::value) {
        uint64_t req = aledger().requests - req0;
        if (req != static_cast<uint64_t>(reallocs)) violation(P18, "%lu allocator requests but %ld capacity changes", (unsigned long)req, reallocs);
      }
      if (std::is_same<E, NTR>::value) {
        uint64_t mv = events().relocations() - mv0;
        // every append moves the new element in once more (temporary) on some paths: allow n extra
        if (mv > static_cast<uint64_t>(relocated + 2 * todo)) violation(P18, "%lu element moves for %ld relocated elements", (unsigned long)mv, relocated);
      }
      (void)re0;
      if (todo >= 16 && reallocs >= 3) {
        feature(0);
        nontriv = true;
      }
    }
    (void)N;
  }
  if (!failed() && (cells().live != 0 || aledger().outstanding != 0)) violation(P18 | P02, "leak");
  enum_end(nontriv);
}

template <class V>
static void reserve_case(const char *name, long k, long r) {
  typedef typename V::size_type ST;
  const long N = static_cast<long>(V::kInlineCapacity);
  char key[160];
  snprintf(key, sizeof key, "reserve %s k=%ld r=%ld", name, k, r);
  if (!enum_begin(key)) return;
  ledgers_reset();
  aledger_reset();
  {
    V v;
    for (long q = 0; q < k; ++q) v.emplace_back(1);
    long cap0 = static_cast<long>(v.capacity());
    uint64_t req0 = aledger().requests;
    feature(5);
    try {
    v.reserve(static_cast<ST>(r));
    if (static_cast<long>(v.capacity()) < r) violation(P18, "reserve(%ld): capacity() is %ld", r, static_cast<long>(v.capacity()));
    if (alloc_on_ledger<typename V::allocator_type>::value) {
      uint64_t req = aledger().requests - req0;
      if (r > cap0 && req != 1) violation(P18, "reserve(%ld) from capacity %ld made %lu allocator requests instead of one", r, cap0, (unsigned long)req);
      if (r <= cap0 && req != 0) violation(P18, "reserve(%ld) within capacity %ld made %lu allocator requests", r, cap0, (unsigned long)req);
    }
    // shrink_to_fit
    feature(6);
    v.shrink_to_fit();
    long size = static_cast<long>(v.size()), cap = static_cast<long>(v.capacity());
    if (N == 0 ? cap != size : (size <= N ? cap != N : cap != size)) violation(P18, "shrink_to_fit with size %ld (N=%ld) leaves capacity %ld", size, N, cap);
    {
      const char *b = reinterpret_cast<const char *>(&v), *q = reinterpret_cast<const char *>(v.data());
      const bool inl = q >= b && q < b + sizeof(V);
      if (N > 0 && size <= N && !inl) violation(P18, "shrink_to_fit with size %ld <= N=%ld does not come back to the inline storage", size, N);
      if (alloc_on_ledger<typename V::allocator_type>::value && ((N > 0 && size <= N) || size == 0) && aledger().outstanding != 0)
        violation(P18, "shrink_to_fit with size %ld (N=%ld) keeps %u heap block(s)", size, N, aledger().outstanding);
      check_block_matches_capacity(v, inl, "after reserve and shrink_to_fit");
    }
    if (static_cast<long>(v.size()) != k) violation(P18, "size changed");
    } catch (const std::exception &e) {
      violation(P18, "reserve(%ld) / shrink_to_fit with %ld elements threw '%s'", r, k, e.what());
      new (&v) V();
    }
  }
  if (!failed() && (cells().live != 0 || aledger().outstanding != 0)) violation(P18 | P02, "leak");
  enum_end(k > 0 && r > k);
}


// One growing operation that adds c elements at once to a vector of k elements: whenever it has to change the capacity, the new one
// covers the need and is at least 1.5 times the old one (the inline N for a SmallVector that is still inline), with one allocator request.
// op: 0 append(c, v), 1 insert(pos, c, v), 2 insert(pos, first, last), 3 resize(k + c), 4 resize(k + c, v), 5 insert(pos, ilist of 3), 6 append(first, last)
template <class V>
static void bulk_case(const char *name, int start, long k, int op, long c) {
  typedef typename V::value_type E;
  typedef typename V::size_type ST;
  const long N = static_cast<long>(V::kInlineCapacity);
  const long stmax = static_cast<long>(std::min<unsigned long long>(std::numeric_limits<ST>::max(), 100000000ull));
  if (op == 5 && c != 3) return;
  if (k + c > stmax) return;
  char key[160];
  snprintf(key, sizeof key, "bulk %s start=%d k=%ld op=%d c=%ld", name, start, k, op, c);
  if (!enum_begin(key)) return;
  ledgers_reset();
  aledger_reset();
  bool nontriv = false;
  {
    V v;
    for (long q = 0; q < k; ++q) v.emplace_back(1);
    if (start == 3) v.shrink_to_fit();
    const long cap = static_cast<long>(v.capacity());
    const uint64_t req0 = aledger().requests;
    std::vector<E> src;
    src.reserve(static_cast<size_t>(c));
    for (long q = 0; q < c; ++q) src.push_back(ET<E>::make(3));
    const E val = ET<E>::make(2);
    const long pos = k / 2;
    switch (op) {
      case 0: v.append(static_cast<ST>(c), val); break;
      case 1: v.insert(v.begin() + pos, static_cast<ST>(c), val); break;
      case 2: v.insert(v.begin() + pos, src.begin(), src.end()); break;
      case 3: v.resize(static_cast<ST>(k + c)); break;
      case 4: v.resize(static_cast<ST>(k + c), val); break;
      case 5: v.insert(v.begin() + pos, {ET<E>::make(4), ET<E>::make(5), ET<E>::make(6)}); break;
      default: v.append(src.begin(), src.end()); break;
    }
    const long c2 = static_cast<long>(v.capacity());
    if (static_cast<long>(v.size()) != k + c) violation(P18, "size is %ld after adding %ld elements to %ld", static_cast<long>(v.size()), c, k);
    if (c2 < k + c) violation(P18, "capacity %ld below size %ld", c2, k + c);
    if (k + c <= cap) {
      if (c2 != cap) violation(P18, "capacity changed from %ld to %ld although %ld elements fit", cap, c2, k + c);
    } else {
      if (cap > 0 && c2 < stmax && 2 * c2 < 3 * cap)
        violation(P18, "growing operation %d (%ld + %ld elements) took the capacity from %ld to %ld: factor below 1.5 without being limited by size_type", op, k, c, cap, c2);
      if (alloc_on_ledger<typename V::allocator_type>::value && aledger().requests - req0 != 1)
        violation(P18, "growing operation %d made %lu allocator requests", op, (unsigned long)(aledger().requests - req0));
      if (N > 0 && cap == N) feature(7);
      else feature(8);
      nontriv = cap > 0;
    }
  }
  if (!failed() && (cells().live != 0 || aledger().outstanding != 0)) violation(P18 | P02, "leak");
  enum_end(nontriv);
}

// shrink_to_fit on a SmallVector whose heap buffer was taken over from an amc::vector (construction or assignment from vector&&, swap2):
// such a buffer may be full and not larger than N, the elements then fit inline and must come back there
template <class V, bool Small = (V::kInlineCapacity > 0)>
struct StealCase {
  static void run(const char *, int, long, long) {}
};
template <class V>
struct StealCase<V, true> {
  static void run(const char *name, int how, long k, long extra) {
    typedef typename V::value_type E;
    typedef typename V::size_type ST;
    typedef amc::vector<E, typename V::allocator_type, ST> Src;
    const long N = static_cast<long>(V::kInlineCapacity);
    char key[160];
    snprintf(key, sizeof key, "steal %s how=%d k=%ld extra=%ld", name, how, k, extra);
    if (!enum_begin(key)) return;
    ledgers_reset();
    aledger_reset();
    {
      Src src;
      for (long q = 0; q < k; ++q) src.emplace_back(static_cast<int>(q + 1));
      src.shrink_to_fit();
      if (extra > 0) src.reserve(static_cast<ST>(k + extra));
      V v0;
      if (how == 1)
        for (long q = 0; q < 2; ++q) v0.emplace_back(9);
      if (how == 2)
        for (long q = 0; q < N + 2; ++q) v0.emplace_back(9);
      V v = how == 0 ? V(std::move(src)) : std::move(v0);
      if (how != 0) v.swap2(src);
      if (k > 0 && k <= N) feature(9);
      v.shrink_to_fit();
      const long size = static_cast<long>(v.size()), cap = static_cast<long>(v.capacity());
      if (size != k) violation(P18, "size %ld instead of %ld", size, k);
      for (long q = 0; q < size && !failed(); ++q)
        if (val_of(v[static_cast<ST>(q)]) != q + 1) violation(P18 | P01, "element %ld changed", q);
      if (size <= N ? cap != N : cap != size) violation(P18, "shrink_to_fit with size %ld (N=%ld) after taking over a vector's buffer leaves capacity %ld", size, N, cap);
      const char *b = reinterpret_cast<const char *>(&v), *q = reinterpret_cast<const char *>(v.data());
      const bool inl = q >= b && q < b + sizeof(V);
      if (size <= N && !inl) violation(P18, "shrink_to_fit with size %ld <= N=%ld after taking over a vector's buffer does not come back to the inline storage", size, N);
      check_block_matches_capacity(v, inl, "shrink_to_fit after taking over a vector's buffer");
      src.clear();
      src.shrink_to_fit();
      if (alloc_on_ledger<typename V::allocator_type>::value && size <= N && aledger().outstanding != 0)
        violation(P18, "shrink_to_fit with size %ld (N=%ld) keeps %u heap block(s)", size, N, aledger().outstanding);
      // and the vector goes on growing geometrically from there
      long c0 = cap;
      for (long q = 0; q < 3 * N + 8 && !failed(); ++q) {
        v.emplace_back(7);
        long c2 = static_cast<long>(v.capacity());
        if (c2 != c0 && 2 * c2 < 3 * c0) violation(P18, "capacity grew from %ld to %ld after shrink_to_fit", c0, c2);
        c0 = c2;
      }
    }
    if (!failed() && (cells().live != 0 || aledger().outstanding != 0)) violation(P18 | P02, "leak");
    enum_end(k > 0);
  }
};

template <class V>
static void run_config(const char *name) {
  const bool thorough = est().thorough;
  const long N = static_cast<long>(V::kInlineCapacity);
  // every n in 1..300 from an empty vector, plus pseudo-random larger n derived from the seed
  for (long n = 1; n <= (thorough ? 3000 : 600); ++n) grow_case<V>(name, 0, 0, n);
  unsigned long long x = est().seed * 6364136223846793005ull + 1442695040888963407ull;
  long big = thorough ? 2000000 : 50000;
  for (int q = 0; q < (thorough ? 64 : 8); ++q) {
    x = x * 6364136223846793005ull + 1442695040888963407ull;
    grow_case<V>(name, 0, 0, (thorough ? 3001 : 601) + static_cast<long>((x >> 33) % static_cast<unsigned long long>(big - 3001)));
  }
  grow_case<V>(name, 0, 0, big);
  static const long ns[] = {1, 2, 7, 16, 17, 64, 100, 257, 1000};
  for (unsigned a = 0; a < sizeof ns / sizeof ns[0]; ++a) {
    for (long k = 1; k <= std::max<long>(N, 3); ++k) grow_case<V>(name, 1, k, ns[a]);
    static const long rs[] = {1, 5, 16, 100};
    for (unsigned b = 0; b < 4; ++b) grow_case<V>(name, 2, rs[b], ns[a]);
    static const long ks[] = {0, 1, 3, 9, 40};
    for (unsigned b = 0; b < 5; ++b) grow_case<V>(name, 3, ks[b], ns[a]);
  }
  for (long k = 0; k <= 12; ++k)
    for (long r = 0; r <= 40; ++r) reserve_case<V>(name, k, r);
  for (long r = 41; r <= 120; r += 13) reserve_case<V>(name, 7, r);
  // bulk growth: every fill of the inline buffer (or 0..12 for a plain vector) x every operation x counts around N and 1.5 N
  const long kmax = N > 0 ? N : 12;
  for (int start = 1; start <= 3; start += 2)
    for (long k = 0; k <= kmax; ++k)
      for (int op = 0; op <= 6; ++op)
        for (long c = 1; c <= 2 * kmax + 3; ++c) bulk_case<V>(name, start, k, op, c);
  static const long bk[] = {17, 40, 100};
  for (unsigned a = 0; a < 3; ++a)
    for (int op = 0; op <= 6; ++op)
      for (long c = 1; c <= 2 * bk[a]; c += 1 + c / 4) bulk_case<V>(name, 1 + 2 * static_cast<int>(a & 1), bk[a], op, c);
  for (int how = 0; how <= 2; ++how)
    for (long k = 0; k <= 2 * N + 2; ++k)
      for (long extra = 0; extra <= 2; ++extra) StealCase<V>::run(name, how, k, extra);
}

int main(int argc, char **argv) {
  enum_init(argc, argv, "growth_c18");
  run_config<amc::vector<TC<12, 4>, AStd<TC<12, 4> >, uint32_t> >("vector<TC12,AStd,u32>");
  run_config<amc::vector<TR, ARe<TR>, uint32_t> >("vector<TR,ARe,u32>");
  run_config<amc::vector<TR, AAmc<TR>, uint64_t> >("vector<TR,AAmc,u64>");
  run_config<amc::vector<NTR, AStd<NTR>, uint32_t> >("vector<NTR,AStd,u32>");
  run_config<amc::vector<NTR, AAmc<NTR>, uint16_t> >("vector<NTR,AAmc,u16>");
  run_config<amc::SmallVector<TR, 4, ARe<TR>, uint32_t> >("SmallVector<TR,4,ARe,u32>");
  run_config<amc::SmallVector<NTR, 3, AStd<NTR>, uint32_t> >("SmallVector<NTR,3,AStd,u32>");
  run_config<amc::SmallVector<int32_t, 8, AAmc<int32_t>, uint32_t> >("SmallVector<int,8,AAmc,u32>");
  run_config<amc::vector<int32_t, ARe<int32_t>, uint8_t> >("vector<int,ARe,u8>");
  run_config<amc::SmallVector<TR, 2, AStd<TR>, int8_t> >("SmallVector<TR,2,AStd,i8>");
  run_config<amc::vector<TR, amc::allocator<TR>, uint32_t> >("vector<TR,amc::allocator,u32>");
  run_config<amc::SmallVector<CO, 4, AStd<CO>, uint32_t> >("SmallVector<CO(copy-only),4,AStd,u32>");
  run_config<amc::SmallVector<int32_t, 3, amc::allocator<int32_t>, uint32_t> >("SmallVector<int,3,amc::allocator,u32>");
  return enum_finish(&feat, "");
}
