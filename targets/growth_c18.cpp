// growth_c18.cpp - C18: geometric growth. Counters: capacity changes (= reallocations), elements relocated, allocator requests.
#include <cmath>

#include <amc/smallvector.hpp>
#include <amc/vector.hpp>

#include "alloc.hpp"
#include "elem.hpp"
#include "enum_main.hpp"

using namespace vf;

static const char *feat(int i) {
  static const char *n[] = {"n_ge_16_and_3_reallocations", "start_inline", "start_reserved", "start_after_shrink", "size_type_limit_reached", "reserve_probe", "shrink_probe"};
  return i < 7 ? n[i] : 0;
}
static int ceil_log2(unsigned long n) {
  int k = 0;
  while ((1ul << k) < n) ++k;
  return k;
}

// start: 0 empty, 1 inline/partially filled (k elements), 2 after reserve(r), 3 after shrink_to_fit
template <class V>
static void grow_case(const char *name, int start, long k, long n) {
  typedef typename V::value_type E;
  typedef typename V::size_type ST;
  const long N = static_cast<long>(V::kInlineCapacity);
  const long stmax = static_cast<long>(std::min<unsigned long long>(std::numeric_limits<ST>::max(), 100000000ull));
  char key[160];
  snprintf(key, sizeof key, "grow %s start=%d k=%ld n=%ld", name, start, k, n);
  if (!enum_begin(key)) return;
  ledgers_reset();
  aledger_reset();
  bool nontriv = false;
  {
    V v;
    if (start == 1) {
      feature(1);
      for (long q = 0; q < k; ++q) v.emplace_back(1);
    } else if (start == 2) {
      feature(2);
      v.reserve(static_cast<ST>(k));
    } else if (start == 3) {
      feature(3);
      for (long q = 0; q < k; ++q) v.emplace_back(1);
      v.shrink_to_fit();
    }
    long room = stmax - static_cast<long>(v.size());
    long todo = std::min(n, room);
    if (todo < n) feature(4);
    uint64_t req0 = aledger().requests, mv0 = events().relocations(), re0 = aledger().realloc_elems;
    long reallocs = 0, relocated = 0;
    long cap = static_cast<long>(v.capacity());
    for (long q = 0; q < todo; ++q) {
      long size_before = static_cast<long>(v.size());
      if (q & 1)
        v.emplace_back(2);
      else
        v.push_back(ET<E>::make(2));
      long c2 = static_cast<long>(v.capacity());
      if (c2 != cap) {
        ++reallocs;
        relocated += size_before;
        if (c2 < cap) violation(P18, "capacity decreased from %ld to %ld while appending", cap, c2);
        // growth factor: at least 1.5 unless the size type limits it
        if (cap > 0 && c2 < stmax && 2 * c2 < 3 * cap) violation(P18, "capacity grew from %ld to %ld: factor below 1.5 without being limited by size_type", cap, c2);
        cap = c2;
      }
    }
    if (todo > 0) {
      long bound_re = 2 * ceil_log2(static_cast<unsigned long>(todo)) + 4;
      if (reallocs > bound_re) violation(P18, "%ld reallocations while appending %ld elements one by one (bound %ld)", reallocs, todo, bound_re);
      if (relocated > 4 * todo + 16 + 4 * static_cast<long>(k)) violation(P18, "%ld element relocations while appending %ld elements (bound %ld)", relocated, todo, 4 * todo + 16 + 4 * k);
      if (alloc_on_ledger<typename V::allocator_type>::value) {
        uint64_t req = aledger().requests - req0;
        if (req != static_cast<uint64_t>(reallocs)) violation(P18, "%lu allocator requests but %ld capacity changes", (unsigned long)req, reallocs);
      }
      if (std::is_same<E, NTR>::value) {
        uint64_t mv = events().relocations() - mv0;
        // every append moves the new element in once more (temporary) on some paths: allow n extra
        if (mv > static_cast<uint64_t>(relocated + 2 * todo)) violation(P18, "%lu element moves for %ld relocated elements", (unsigned long)mv, relocated);
      }
      (void)re0;
      if (todo >= 16 && reallocs >= 3) {
        feature(0);
        nontriv = true;
      }
    }
    (void)N;
  }
  if (!failed() && (cells().live != 0 || aledger().outstanding != 0)) violation(P18 | P02, "leak");
  enum_end(nontriv);
}

template <class V>
static void reserve_case(const char *name, long k, long r) {
  typedef typename V::size_type ST;
  const long N = static_cast<long>(V::kInlineCapacity);
  char key[160];
  snprintf(key, sizeof key, "reserve %s k=%ld r=%ld", name, k, r);
  if (!enum_begin(key)) return;
  ledgers_reset();
  aledger_reset();
  {
    V v;
    for (long q = 0; q < k; ++q) v.emplace_back(1);
    long cap0 = static_cast<long>(v.capacity());
    uint64_t req0 = aledger().requests;
    feature(5);
    v.reserve(static_cast<ST>(r));
    if (static_cast<long>(v.capacity()) < r) violation(P18, "reserve(%ld): capacity() is %ld", r, static_cast<long>(v.capacity()));
    if (alloc_on_ledger<typename V::allocator_type>::value) {
      uint64_t req = aledger().requests - req0;
      if (r > cap0 && req != 1) violation(P18, "reserve(%ld) from capacity %ld made %lu allocator requests instead of one", r, cap0, (unsigned long)req);
      if (r <= cap0 && req != 0) violation(P18, "reserve(%ld) within capacity %ld made %lu allocator requests", r, cap0, (unsigned long)req);
    }
    // shrink_to_fit
    feature(6);
    v.shrink_to_fit();
    long size = static_cast<long>(v.size()), cap = static_cast<long>(v.capacity());
    if (N == 0 ? cap != size : (size <= N ? cap != N : cap != size)) violation(P18, "shrink_to_fit with size %ld (N=%ld) leaves capacity %ld", size, N, cap);
    {
      const char *b = reinterpret_cast<const char *>(&v), *q = reinterpret_cast<const char *>(v.data());
      const bool inl = q >= b && q < b + sizeof(V);
      if (N > 0 && size <= N && !inl) violation(P18, "shrink_to_fit with size %ld <= N=%ld does not come back to the inline storage", size, N);
      if (alloc_on_ledger<typename V::allocator_type>::value && ((N > 0 && size <= N) || size == 0) && aledger().outstanding != 0)
        violation(P18, "shrink_to_fit with size %ld (N=%ld) keeps %u heap block(s)", size, N, aledger().outstanding);
    }
    if (static_cast<long>(v.size()) != k) violation(P18, "size changed");
  }
  if (!failed() && (cells().live != 0 || aledger().outstanding != 0)) violation(P18 | P02, "leak");
  enum_end(k > 0 && r > k);
}

template <class V>
static void run_config(const char *name) {
  const bool thorough = est().thorough;
  const long N = static_cast<long>(V::kInlineCapacity);
  // every n in 1..300 from an empty vector, plus pseudo-random larger n derived from the seed
  for (long n = 1; n <= 300; ++n) grow_case<V>(name, 0, 0, n);
  unsigned long long x = est().seed * 6364136223846793005ull + 1442695040888963407ull;
  long big = thorough ? 1000000 : 50000;
  for (int q = 0; q < (thorough ? 24 : 8); ++q) {
    x = x * 6364136223846793005ull + 1442695040888963407ull;
    grow_case<V>(name, 0, 0, 301 + static_cast<long>((x >> 33) % static_cast<unsigned long long>(big - 300)));
  }
  grow_case<V>(name, 0, 0, big);
  static const long ns[] = {1, 2, 7, 16, 17, 64, 100, 257, 1000};
  for (unsigned a = 0; a < sizeof ns / sizeof ns[0]; ++a) {
    for (long k = 1; k <= std::max<long>(N, 3); ++k) grow_case<V>(name, 1, k, ns[a]);
    static const long rs[] = {1, 5, 16, 100};
    for (unsigned b = 0; b < 4; ++b) grow_case<V>(name, 2, rs[b], ns[a]);
    static const long ks[] = {0, 1, 3, 9, 40};
    for (unsigned b = 0; b < 5; ++b) grow_case<V>(name, 3, ks[b], ns[a]);
  }
  for (long k = 0; k <= 12; ++k)
    for (long r = 0; r <= 40; ++r) reserve_case<V>(name, k, r);
  for (long r = 41; r <= 120; r += 13) reserve_case<V>(name, 7, r);
}

int main(int argc, char **argv) {
  enum_init(argc, argv, "growth_c18");
  run_config<amc::vector<TC<12, 4>, AStd<TC<12, 4> >, uint32_t> >("vector<TC12,AStd,u32>");
  run_config<amc::vector<TR, ARe<TR>, uint32_t> >("vector<TR,ARe,u32>");
  run_config<amc::vector<TR, AAmc<TR>, uint64_t> >("vector<TR,AAmc,u64>");
  run_config<amc::vector<NTR, AStd<NTR>, uint32_t> >("vector<NTR,AStd,u32>");
  run_config<amc::vector<NTR, AAmc<NTR>, uint16_t> >("vector<NTR,AAmc,u16>");
  run_config<amc::SmallVector<TR, 4, ARe<TR>, uint32_t> >("SmallVector<TR,4,ARe,u32>");
  run_config<amc::SmallVector<NTR, 3, AStd<NTR>, uint32_t> >("SmallVector<NTR,3,AStd,u32>");
  run_config<amc::SmallVector<int32_t, 8, AAmc<int32_t>, uint32_t> >("SmallVector<int,8,AAmc,u32>");
  run_config<amc::vector<int32_t, ARe<int32_t>, uint8_t> >("vector<int,ARe,u8>");
  run_config<amc::SmallVector<TR, 2, AStd<TR>, int8_t> >("SmallVector<TR,2,AStd,i8>");
  run_config<amc::vector<TR, amc::allocator<TR>, uint32_t> >("vector<TR,amc::allocator,u32>");
  return enum_finish(&feat, "");
}
