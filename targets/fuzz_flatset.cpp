// fuzz_flatset.cpp - libFuzzer target for one FlatSet configuration
#include "flatset_interp.hpp"
#include "fuzz_main.hpp"
using namespace vf;
extern "C" int LLVMFuzzerTestOneInput(const uint8_t *data, size_t size) {
  static FlatSetInterp<VF_S, VF_S2> I(VF_NAME, VF_LIMIT, VF_IS_STD, VF_IS_FCV);
  static bool once = false;
  if (!once) {
    once = true;
    I.relocate_enabled = parse_prop(getenv("VF_PROP") ? getenv("VF_PROP") : "C03") == 14;
  }
  return fuzz_one(I, data, size, &set_feat_name);
}
