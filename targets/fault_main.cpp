// fault_main.cpp - C09 fault enumeration for one vector configuration: -DVF_V=<type> -DVF_NAME
//   --exhaustive : complete grid of scenarios (each with every fault index k); otherwise rapidcheck-generated scenarios
#include "fault_interp.hpp"
#include "interp_main.hpp"

using namespace vf;
typedef VF_V TheV;

static Op encode(const Scenario &s) {
  Op o;
  o.code = static_cast<uint8_t>(s.op);
  o.a = static_cast<uint8_t>(s.s0 | (s.capmode << 6) | (s.storage << 7));
  o.b = static_cast<uint8_t>(s.pos);
  o.c = static_cast<uint8_t>(s.cnt);
  o.d = static_cast<uint8_t>(s.kind + 7 * s.val);
  return o;
}

static FaultInterp<TheV> I(VF_NAME);

static void write_extra(const char *stats) {
  fprintf(stderr, "pairs=%llu scenarios=%llu known_skipped=%llu\n", (unsigned long long)I.pairs, (unsigned long long)I.scenarios, (unsigned long long)I.known_skipped);
  if (!stats) return;
  std::string p = std::string(stats) + ".extra";
  FILE *f = fopen(p.c_str(), "w");
  if (f) {
    fprintf(f, "{\"pairs\":%llu,\"scenarios\":%llu,\"known_skipped\":%llu}\n", (unsigned long long)I.pairs, (unsigned long long)I.scenarios, (unsigned long long)I.known_skipped);
    fclose(f);
  }
}

int main(int argc, char **argv) {
  bool exhaustive = false, nomask = false, survey = false;
  for (int i = 1; i < argc; ++i) {
    if (!strcmp(argv[i], "--exhaustive")) exhaustive = true;
    if (!strcmp(argv[i], "--no-mask")) nomask = true;
    if (!strcmp(argv[i], "--survey")) survey = exhaustive = true;  // list every failing scenario instead of stopping at the first
  }
  if (nomask) I.mask_known = false;
  uint32_t w[kFaultNumOps];
  for (int i = 0; i < kFaultNumOps; ++i) w[i] = 2;
  w[6] = w[7] = w[11] = w[12] = 4;
  MainArgs a = parse_args(argc, argv);
  if (!exhaustive) {
    int rc = interp_main(argc, argv, I, w, kFaultNumOps, &fault_feat_name);
    write_extra(a.stats);
    return rc;
  }
  Ctx &c = ctx();
  c.prop = parse_prop(a.prop);
  c.fatal_mask = fatal_mask_for(c.prop);
  c.cfg_name = I.cfgname;
  install_malloc_hook();
  if (a.crash) crash_area_open(a.crash);
  static const int sizes[] = {0, 1, 2, 3, 5};
  static const int kinds[] = {RK_PTR, RK_LIST, RK_INPUT};
  int result = 0;
  std::string failmsg;
  for (int op = 0; op < kFaultNumOps && !result; ++op)
    for (int si = 0; si < 5 && !result; ++si)
      for (int capmode = 0; capmode < 2 && !result; ++capmode)
        for (int storage = 0; storage < 2 && !result; ++storage)
          for (int pi = 0; pi < 3 && !result; ++pi)
            for (int cnt = 0; cnt <= 6 && !result; ++cnt)
              for (int ki = 0; ki < 3 && !result; ++ki) {
                bool range_op = (op == 7 || op == 12 || op == 15 || op == 22);
                if (!range_op && ki > 0) continue;
                bool counted = (op >= 6 && op <= 16 && op != 8) || op == 20 || op == 21 || op == 22;
                if (!counted && cnt > 0) continue;
                bool positional = (op >= 3 && op <= 8);
                if (!positional && pi > 0) continue;
                Scenario s;
                s.op = op;
                s.s0 = sizes[si];
                s.capmode = capmode;
                s.storage = storage;
                s.pos = pi == 0 ? 0 : (pi == 1 ? s.s0 / 2 : s.s0);
                s.cnt = cnt;
                s.kind = kinds[ki];
                s.val = 3;
                Op o = encode(s);
                unsigned char bytes[5] = {o.code, o.a, o.b, o.c, o.d};
                crash_area_set(bytes, 5);
                bool failed = I.run(&o, 1);
                crash_area_done();
                if (failed && survey) {
                  printf("SURVEY %s\n", c.msg);
                  continue;
                }
                if (failed) {
                  result = 1;
                  failmsg = c.msg;
                  if (a.replay_out) {
                    char hdr[700];
                    snprintf(hdr, sizeof hdr, "check=%s config=%s mode=exhaustive  # %s", a.prop, I.cfgname, c.msg);
                    replay_write(a.replay_out, hdr, bytes, 1, 0);
                  }
                  printf("VF-FAIL prop=%s cfg=%s nops=1 msg=%s\n", a.prop, I.cfgname, c.msg);
                }
              }
  // in this mode "cases" are scenarios; the (scenario,k) pairs are reported separately
  write_stats(a.stats, I.cfgname, a, &fault_feat_name, result, failmsg);
  write_extra(a.stats);
  return result;
}
